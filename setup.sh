#!/bin/bash
# Offline setup: nothing to download. Warm the verus cache / check tools exist.
set -e
cd "$(dirname "$0")"
command -v verus >/dev/null
command -v cargo-kani >/dev/null || true
mkdir -p .work evidence replays
exit 0
