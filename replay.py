"""Replay of failed obligations on the real library.

* Kani failure: the CBMC counterexample values are turned into a Starlark expression (or a host-API probe) and
  executed by /verif/replay (a crate with a path dependency on /repo), compared with an independent oracle
  (Python's unbounded integers / floats).
* Verus failure (no model): a boundary grid is evaluated on the real library purely to FIND a witness for the
  already-failed obligation.  The grid never creates a violation and never turns a failure into a pass.
"""
import json
import os
import subprocess
import sys
import struct
import itertools

HERE = os.path.dirname(os.path.abspath(__file__))
TARGET = os.path.join(HERE, '.cache', 'replay-target')
BIN = os.path.join(TARGET, 'debug', 'verif_replay')


def build(log=lambda *a: None):
    env = dict(os.environ)
    env['CARGO_TARGET_DIR'] = TARGET
    env['CARGO_NET_OFFLINE'] = 'true'
    p = subprocess.run(['cargo', 'build', '--offline'], cwd=os.path.join(HERE, 'replay'), env=env,
                       capture_output=True, text=True)
    if p.returncode != 0:
        raise RuntimeError('replay crate does not build: ' + p.stderr[-400:])
    return BIN


def eval_many(exprs, log=lambda *a: None):
    build(log)
    os.makedirs(os.path.join(HERE, '.work'), exist_ok=True)
    path = os.path.join(HERE, '.work', 'replay_in.star')
    open(path, 'w').write('\n'.join(exprs) + '\n')
    p = subprocess.run([BIN, 'evalfile', path], capture_output=True, text=True, timeout=600)
    outs = p.stdout.splitlines()
    if len(outs) != len(exprs):
        raise RuntimeError('replay output mismatch (%d vs %d): %s' % (len(outs), len(exprs), p.stderr[-300:]))
    return outs


def py_repr(v):
    if isinstance(v, bool):
        return 'True' if v else 'False'
    return repr(v)


def flit(f):
    """Starlark float expression that denotes exactly the double f."""
    if f != f:
        return 'float("nan")'
    if f in (float('inf'), float('-inf')):
        return 'float("%sinf")' % ('-' if f < 0 else '')
    return 'float("%s")' % repr(f)


# --- integer operators: grid + oracle ---------------------------------------------------------------------------
def int_grid():
    pts = set()
    for base in (0, 1 << 31, 1 << 32, 1 << 53, 1 << 63, 1 << 64, 100000, 32):
        for d in (-2, -1, 0, 1, 2):
            pts.add(base + d)
            pts.add(-(base + d))
    pts |= {3, 7, -3, -7, 13, -13, 1 << 100, -(1 << 100), 31, 33, 64, 100001}
    return sorted(pts)


def floor_div(a, b):
    return a // b


INT_OPS = {
    'add': ('(%s) + (%s)', lambda a, b: a + b),
    'sub': ('(%s) - (%s)', lambda a, b: a - b),
    'mul': ('(%s) * (%s)', lambda a, b: a * b),
    'floor_div': ('(%s) // (%s)', lambda a, b: a // b),
    'percent': ('(%s) %% (%s)', lambda a, b: a % b),
    'left_shift': ('(%s) << (%s)', lambda a, b: a << b),
    'right_shift': ('(%s) >> (%s)', lambda a, b: a >> b),
    'bitand': ('(%s) & (%s)', lambda a, b: a & b),
    'bitor': ('(%s) | (%s)', lambda a, b: a | b),
    'bitxor': ('(%s) ^ (%s)', lambda a, b: a ^ b),
    'cmp': ('((%s) < (%s), (%s) == (%s))', None),
    'neg': ('-(%s)', lambda a: -a),
    'not': ('~(%s)', lambda a: ~a),
    'abs': ('abs(%s)', lambda a: abs(a)),
}


def op_for_obligation(oid, fn):
    s = (oid + ' ' + (fn or '')).lower()
    for key, names in (('floor_div', ('floor_div',)), ('percent', ('percent', '::rem', '.rem')), ('left_shift', ('left_shift', 'checked_shl')),
                       ('right_shift', ('right_shift', 'checked_shr')), ('bitand', ('bitand',)), ('bitor', ('bitor',)),
                       ('bitxor', ('bitxor',)), ('neg', ('neg',)), ('not', ('.not', '::not')), ('abs', ('abs',)),
                       ('mul', ('mul',)), ('sub', ('sub',)), ('add', ('add',)), ('cmp', ('cmp', 'eq_i32'))):
        if any(n in s for n in names):
            return key
    return None


def grid_search_int(op, log):
    tmpl, oracle = INT_OPS[op]
    pts = int_grid()
    unary = op in ('neg', 'not', 'abs')
    cases = [(a,) for a in pts] if unary else list(itertools.product(pts, pts))
    if op == 'left_shift':
        cases = [(a, b) for a, b in cases if b <= 100001]
    exprs = []
    for c in cases:
        if op == 'cmp':
            exprs.append(tmpl % (c[0], c[1], c[0], c[1]))
        else:
            exprs.append(tmpl % c)
    outs = eval_many(exprs, log)
    for c, e, o in zip(cases, exprs, outs):
        try:
            if op == 'cmp':
                want = 'OK (%s, %s)' % (py_repr(c[0] < c[1]), py_repr(c[0] == c[1]))
            elif op == 'left_shift' and c[1] > 100000 and c[0] != 0:
                want = 'ERR'
            else:
                want = 'OK %s' % oracle(*c)
        except (ZeroDivisionError, ValueError):
            want = 'ERR'
        good = o.startswith('ERR') if want == 'ERR' else o == want
        if not good:
            return {'witness': {'expression': e, 'real_library': o, 'oracle_python': want}, 'grid_points': len(cases)}
    return {'witness': None, 'grid_points': len(cases)}


def slice_grid_search(log):
    vals = [None] + list(range(-8, 9)) + [2**31 - 1, -(2**31)]
    exprs, wants = [], []
    for n in range(0, 7):
        xs = list(range(n))
        for st in vals:
            for sp in vals:
                for step in (None, 1, -1, 2, -2, 3, -3, 7, -7, 2**31 - 1, -(2**31)):
                    f = lambda v: '' if v is None else str(v)
                    exprs.append('%r[%s:%s:%s]' % (xs, f(st), f(sp), f(step)))
                    wants.append('OK %r' % xs[slice(st, sp, step)])
        exprs.append('len(%r)' % xs)
        wants.append('OK %d' % n)
        tp = tuple(xs)
        for c in (xs, tp):
            exprs.append('bool(%r)' % (c,))
            wants.append('OK %s' % bool(c))
        exprs.append('len(%r)' % (tp,))
        wants.append('OK %d' % n)
        for c in (xs, tp):
            for y in (-1, 0, n - 1, n, 1.0, 'a', None):
                exprs.append('%r in %r' % (y, c))
                wants.append('OK %s' % (y in c))
        for i in list(range(-8, 9)):
            exprs.append('%r[%d]' % (tp, i))
            try:
                wants.append('OK %r' % tp[i])
            except IndexError:
                wants.append('ERR')
        for i in list(range(-8, 9)):
            exprs.append('%r[%d]' % (xs, i))
            try:
                wants.append('OK %r' % xs[i])
            except IndexError:
                wants.append('ERR')
    outs = eval_many(exprs, log)
    for e, o, w in zip(exprs, outs, wants):
        good = o.startswith('ERR') if w == 'ERR' else o == w
        if not good:
            return {'witness': {'expression': e, 'real_library': o, 'oracle_python': w}, 'grid_points': len(exprs)}
    return {'witness': None, 'grid_points': len(exprs)}


def kani_replay(v, log):
    """Re-execute a Kani counterexample on the real library through the public API."""
    cex = v.get('counterexample')
    if not cex:
        return None
    name = v.get('harness', '').split('::')[-1]
    vals = cex['values']

    def dec(i, ty):
        fmt = {'i32': '<i', 'u32': '<I', 'i64': '<q', 'u64': '<Q', 'f64': '<d'}[ty]
        return struct.unpack(fmt, bytes(vals[i]['bytes'])[:struct.calcsize(fmt)])[0]
    probes = []
    try:
        if name == 'c09_num_eq_big_float_exact_bounded':
            i, f = dec(0, 'i64'), dec(1, 'f64')
            exact = (f == f) and abs(f) != float('inf') and f == int(f) and int(f) == i
            probes.append(('(%d) == %s' % (i, flit(f)), 'OK %s' % py_repr(exact)))
        elif name.startswith('c10_inline_checked_') or name in ('c10_inline_checked_sub',):
            op = name[len('c10_inline_checked_'):]
            a = dec(0, 'i32')
            if op in ('add', 'sub', 'sub_i32', 'mul_i32', 'div'):
                b = dec(1, 'i32')
                sym = {'add': '+', 'sub': '-', 'sub_i32': '-', 'mul_i32': '*', 'div': '//'}[op]
                want = {'+': a + b, '-': a - b, '*': a * b}.get(sym)
                if sym == '//':
                    want = a // b if b else None
                probes.append(('(%d) %s (%d)' % (a, sym, b), 'ERR' if want is None else 'OK %d' % want))
            elif op == 'neg':
                probes.append(('-(%d)' % a, 'OK %d' % -a))
            elif op in ('shl', 'shr'):
                b = dec(1, 'u32')
                if b <= 100000:
                    probes.append(('(%d) %s %d' % (a, '<<' if op == 'shl' else '>>', b), 'OK %d' % (a << b if op == 'shl' else a >> b)))
        elif name.startswith('c09_num_eq_implies_same_hash') or name == 'c09_num_eq_transitive_mixed':
            # values: i32 / f64 in declaration order
            kinds = {'c09_num_eq_implies_same_hash_small_float': ['i32', 'f64'],
                     'c09_num_eq_implies_same_hash_float_float': ['f64', 'f64'],
                     'c09_num_eq_implies_same_hash_small_small': ['i32', 'i32'],
                     'c09_num_eq_transitive_mixed': ['i32', 'f64', 'f64']}[name]
            xs = [dec(k, t) for k, t in enumerate(kinds)]
            lit = [flit(x) if isinstance(x, float) else '(%d)' % x for x in xs]
            a, b = lit[0], lit[1]
            probes.append(('(%s == %s) == (%s in {%s: 1})' % (a, b, a, b), 'OK True'))
            if len(lit) == 3:
                c = lit[2]
                probes.append(('not (%s == %s and %s == %s) or %s == %s' % (a, b, b, c, a, c), 'OK True'))
        elif name in ('c09_float_compare_reflexive_antisymmetric', 'c09_float_compare_transitive'):
            xs = [dec(k, 'f64') for k in range(len(vals))]
            lit = [flit(x) for x in xs]
            probes.append(('sorted([%s]) == sorted(list(reversed([%s])))' % (', '.join(lit), ', '.join(lit)), 'OK True'))
    except Exception as ex:
        return {'replay_error': str(ex)}
    if not probes:
        return {'replay': 'no public-API probe defined for this harness; counterexample values recorded',
                'witness': {'kani_values': [x.get('comment') for x in vals]}}
    outs = eval_many([p[0] for p in probes], log)
    results = []
    confirmed = None
    for (e, want), o in zip(probes, outs):
        ok = o.startswith('ERR') if want == 'ERR' else o == want
        results.append({'expression': e, 'real_library': o, 'oracle_python': want, 'agrees': ok})
        if not ok and confirmed is None:
            confirmed = {'expression': e, 'real_library': o, 'oracle_python': want}
    return {'replayed_on_real_code': results,
            'witness': confirmed or {'kani_values': [x.get('comment') for x in vals],
                                     'note': 'internal function fails its contract for these inputs; the public-API probe does not expose it'}}


def hash_grid_search(log):
    """equal numbers must be interchangeable as dict keys: n (int) vs float(n) for exactly representable n."""
    ns = []
    for k in (0, 1, 5, 20, 30, 31, 32, 40, 52, 53, 55, 62, 63, 64, 70, 100, 200):
        for sgn in (1, -1):
            for m in (1, 3):
                n = sgn * m * (1 << k)
                if float(n) == n and abs(n) < 2**1000:
                    ns.append(n)
    ns = sorted(set(ns + [0, 7, -7, 1000000]))
    exprs = ['((%d) == float(%d), {(%d): 1}.get(float(%d)), {float(%d): 1}.get(%d), len(dict([((%d), 1), (float(%d), 2)])))' % ((n,) * 8) for n in ns]
    outs = eval_many(exprs, log)
    for n, e, o in zip(ns, exprs, outs):
        want = 'OK (True, 1, 1, 1)'
        if o != want:
            return {'witness': {'expression': e, 'real_library': o, 'oracle_python': want}, 'grid_points': len(ns)}
    # numbers inside tuple keys (write_hash path), incl. NaNs of different sign (equal in Starlark: all NaNs compare equal)
    extra = []
    for a, b in (('float("nan")', '-float("nan")'), ('1', '1.0'), ('0.0', '-0.0'), ('1 << 60', 'float(1 << 60)'), ('2.5', '2.5')):
        extra.append('((%s, 1) == (%s, 1), {(%s, 1): 1}.get((%s, 1)), len(set([(%s, 1), (%s, 1)])))' % (a, b, a, b, a, b))
    outs2 = eval_many(extra, log)
    for e, o in zip(extra, outs2):
        if o != 'OK (True, 1, 1)':
            return {'witness': {'expression': e, 'real_library': o, 'expected': 'OK (True, 1, 1): equal keys are one key'}, 'grid_points': len(ns) + len(extra)}
    return {'witness': None, 'grid_points': len(ns) + len(extra)}


def int_float_grid_search(log, exact_only=False):
    """exact comparison of ints with floats (Python compares them exactly).  exact_only: only ints that a double holds
    exactly (there the comparison through as_float is exact, i.e. the open finding about inexact big ints cannot show)."""
    ints, floats = set(), set()
    for k in (31, 32, 52, 53, 54, 62, 63, 64, 65, 100):
        for d in (-3, -2, -1, 0, 1, 2, 3):
            for sgn in (1, -1):
                ints.add(sgn * ((1 << k) + d))
        for sgn in (1.0, -1.0):
            floats.add(sgn * float(1 << k))
            floats.add(sgn * (float(1 << k) + 0.5) if k < 52 else sgn * float((1 << k) + (1 << (k - 52))))
    floats |= {0.5, -0.5, 2147483648.5, -2147483649.5, float('inf'), float('-inf'), float('nan')}
    if exact_only:
        ints = {n for n in ints if int(float(n)) == n}
    cases = [(n, f) for n in sorted(ints) for f in sorted(floats, key=lambda x: (x != x, x))]
    exprs = ['((%d) == %s, (%d) < %s, %s < (%d))' % (n, flit(f), n, flit(f), flit(f), n) for n, f in cases]
    outs = eval_many(exprs, log)
    for (n, f), e, o in zip(cases, exprs, outs):
        if f != f:
            want = 'OK (False, True, False)'      # Starlark: NaN is greater than every number
        else:
            want = 'OK (%s, %s, %s)' % (py_repr(n == f), py_repr(n < f), py_repr(f < n))
        if o != want:
            return {'witness': {'expression': e, 'real_library': o, 'oracle_python': want}, 'grid_points': len(cases)}
    return {'witness': None, 'grid_points': len(cases)}


def float_to_int_grid_search(log):
    """int(f) for integral doubles around the representation boundaries vs Python (exact)."""
    fs = set()
    for k in (0, 1, 30, 31, 32, 52, 53, 54, 62, 63, 64, 65, 100, 200):
        for sgn in (1.0, -1.0):
            base = sgn * float(1 << k)
            fs.add(base)
            import math
            fs.add(math.nextafter(base, 0.0))
            fs.add(math.nextafter(base, sgn * float('inf')))
            fs.add(base + sgn * 1.0)
            fs.add(base - sgn * 1.0)
    fs = sorted(f for f in fs if f == f and abs(f) != float('inf'))
    exprs = ['int(%s)' % flit(f) for f in fs]
    outs = eval_many(exprs, log)
    for f, e, o in zip(fs, exprs, outs):
        want = 'OK %d' % int(f)
        if o != want:
            return {'witness': {'expression': e, 'real_library': o, 'oracle_python': want}, 'grid_points': len(fs)}
    return {'witness': None, 'grid_points': len(fs)}


def ticks_grid_search(log):
    """one tick per function call / loop back-edge: N calls of each kind must be counted as at least N ticks."""
    build(log)
    n = 40
    progs = {
        'def call': 'def f(x):\n  return x\n' + 'f(1)\n' * n,
        'lambda call': 'g = lambda x: x\n' + 'g(1)\n' * n,
        'list method call': 'l = []\n' + 'l.append(1)\n' * n,
        'string method call': 's = "a"\nr = []\n' + 'r = s.split("x")\n' * n,
        'dict method call': 'd = {}\n' + 'd.setdefault(1, 2)\n' * n,
        'method call in def': 'def f(l):\n' + '  l.append(1)\n' * n + 'f([])\n',
        'for loop': 'for i in range(%d):\n  pass\n' % n,
    }
    for name, src in progs.items():
        p = subprocess.run([BIN, 'ticks', src], capture_output=True, text=True, timeout=120)
        out = p.stdout.strip()
        try:
            t = int(out.rsplit('ticks=', 1)[1])
        except Exception:
            continue
        if t < n:
            return {'witness': {'program': '%s x %d' % (name, n), 'source_head': src[:80], 'real_library': out,
                                'expected': 'ticks >= %d (one tick per function call or loop back-edge)' % n}}
    return {'witness': None, 'programs': len(progs)}


def parser_grid_search(log):
    """`a OP1 b OP2 c` for every operator pair in three contexts: accepted and grouped as CPython's grammar does
    (comparison chains, which Starlark forbids, must be rejected)."""
    import ast
    build(log)
    ops = ['or', 'and', '==', '!=', '<', '>', '<=', '>=', 'in', 'not in', '|', '^', '&', '<<', '>>', '+', '-', '*', '/', '//', '%']
    cmpops = {'==', '!=', '<', '>', '<=', '>=', 'in', 'not in'}
    names = {ast.Or: 'or', ast.And: 'and', ast.Eq: '==', ast.NotEq: '!=', ast.Lt: '<', ast.Gt: '>', ast.LtE: '<=', ast.GtE: '>=',
             ast.In: 'in', ast.NotIn: 'not in', ast.BitOr: '|', ast.BitXor: '^', ast.BitAnd: '&', ast.LShift: '<<', ast.RShift: '>>',
             ast.Add: '+', ast.Sub: '-', ast.Mult: '*', ast.Div: '/', ast.FloorDiv: '//', ast.Mod: '%'}

    def show(e):
        if isinstance(e, ast.Name):
            return e.id
        if isinstance(e, ast.BinOp):
            return '(%s %s %s)' % (show(e.left), names[type(e.op)], show(e.right))
        if isinstance(e, ast.BoolOp):
            r = show(e.values[0])
            for v in e.values[1:]:
                r = '(%s %s %s)' % (r, names[type(e.op)], show(v))
            return r
        if isinstance(e, ast.Compare) and len(e.ops) == 1:
            return '(%s %s %s)' % (show(e.left), names[type(e.ops[0])], show(e.comparators[0]))
        if isinstance(e, ast.UnaryOp) and isinstance(e.op, ast.Not):
            return '(not %s)' % show(e.operand)
        raise ValueError('chain')
    cases = []
    for o1 in ops:
        for o2 in ops:
            for ctx, tmpl, wrap in (('stmt', 'x = %s', 'x = %s'), ('arg', 'f(%s)', 'f(%s)'), ('notarg', 'f(not %s)', None)):
                expr = 'a %s b %s c' % (o1, o2)
                src = tmpl % expr
                try:
                    tree = ast.parse(('not ' if ctx == 'notarg' else '') + expr, mode='eval').body
                    want = 'OK ' + (wrap % show(tree) if wrap else 'f(%s)' % show(tree))
                except ValueError:
                    want = 'ERR'
                cases.append((src, want))
    # a prefix `not` as the right operand: only `and` / `or` (and another `not`) may be followed by it
    for o1 in ops:
        for expr in ('a %s not b' % o1, 'a %s not b %s c' % (o1, o1), 'not a %s not b' % o1):
            try:
                tree = ast.parse(expr, mode='eval').body
                want = 'OK x = ' + show(tree)
            except (ValueError, SyntaxError):
                want = 'ERR'
            cases.append(('x = ' + expr, want))
    path = os.path.join(HERE, '.work', 'parse_in.star')
    open(path, 'w').write('\n'.join(c[0] for c in cases) + '\n')
    p = subprocess.run([BIN, 'parsefile', path], capture_output=True, text=True, timeout=300)
    outs = p.stdout.splitlines()
    for (src, want), o in zip(cases, outs):
        if o != want:
            return {'witness': {'source': src, 'real_library': o, 'oracle_cpython_grammar': want}, 'grid_points': len(cases)}
    return {'witness': None, 'grid_points': len(cases)}


def augassign_grid_search(log):
    """`target[i] OP= rhs` where evaluating rhs changes target[i]: the old value is read BEFORE rhs is evaluated."""
    build(log)
    progs = []
    for cont, key, newv in (('[10, 20]', '0', '100'), ('{"k": 10}', '"k"', '100'), ('[[1], [2]]', '1', '[9]')):
        for op, rhs in (('+=', '1'), ('*=', '3'), ('-=', '4')):
            if cont.startswith('[[') and op != '+=':
                continue
            r = rhs if not cont.startswith('[[') else '[7]'
            progs.append('x = %s\ndef bump():\n    x[%s] = %s\n    return %s\ndef run():\n    x[%s] %s bump()\n    return x[%s]\nrun()' % (cont, key, newv, r, key, op, key))
    n = 0
    for src in progs:
        env = {}
        try:
            exec(src.rsplit('\n', 1)[0], env)
            want = 'OK ' + repr(env['run']())
        except Exception:
            want = 'ERR'
        p = subprocess.run([BIN, 'evalseq', src], capture_output=True, text=True, timeout=120)
        o = (p.stdout.strip().splitlines() or ['?'])[-1]
        n += 1
        good = o.startswith('ERR') if want == 'ERR' else o == want
        if not good:
            return {'witness': {'program': src, 'real_library': o, 'oracle_python': want}, 'grid_points': n}
    return {'witness': None, 'grid_points': n}


def loop_exit_grid_search(log):
    """a list / dict / set is iterated by a for loop that is left by exhaustion, break, or one of the return forms
    (constant, computed, in a def with a declared return type); afterwards the container must be mutable again."""
    build(log)
    conts = [('[1, 2, 3]', 'c.append(9)'), ('{1: 2, 3: 4}', 'c[9] = 9'), ('set([1, 2])', 'c.add(9)')]
    bodies = [('exhaustion', 'def f(c):\n    for x in c:\n        pass\n    return 0'),
              ('break', 'def f(c):\n    for x in c:\n        break\n    return 0'),
              ('return const', 'def f(c):\n    for x in c:\n        return 7\n    return 0'),
              ('return expr', 'def f(c):\n    for x in c:\n        return x + 1\n    return 0'),
              ('typed return', 'def f(c) -> int:\n    for x in c:\n        return 7\n    return 0'),
              ('typed return expr', 'def f(c) -> int:\n    for x in c:\n        for y in c:\n            return x + 1\n    return 0'),
              ('nested return', 'def f(c):\n    for x in c:\n        for y in c:\n            return y\n    return 0')]
    n = 0
    for cexpr, mut in conts:
        for name, body in bodies:
            src = '%s\nc = %s\nf(c)\n%s\nlen(c)' % (body, cexpr, mut)
            p = subprocess.run([BIN, 'evalseq', src], capture_output=True, text=True, timeout=120)
            o = (p.stdout.strip().splitlines() or ['?'])[-1]
            n += 1
            if not o.startswith('OK'):
                return {'witness': {'program': src, 'real_library': o, 'expected': 'the container is mutable again after the loop was left by ' + name}, 'grid_points': n}
    return {'witness': None, 'grid_points': n}


def call_grid_search(log):
    """9 signatures x 16 call shapes (positional, named, *seq, **map): the values the parameters receive, or failure,
    compared with CPython's call rules."""
    sigs = [('a', '(a,)'), ('a, b', '(a, b)'), ('a, b=5', '(a, b)'), ('a, *args', '(a, list(args))'),
            ('a, **kw', '(a, sorted([ord(k) for k in kw]), sorted(kw.values()))'), ('a, *, k', '(a, k)'),
            ('a, *args, k=1, **kw', '(a, list(args), k, sorted([ord(x) for x in kw]))'), ('*args', '(list(args),)'),
            ('**kw', '(sorted([ord(k) for k in kw]),)'), ('a=1, b=2', '(a, b)')]
    calls = ['', '1', '1, 2', '1, 2, 3', 'a=1', '1, b=2', '1, k=3', '*[1, 2]', '1, *[2]', '**{"a": 1}', '1, **{"b": 2}', '1, **{}',
             '1, 2, **{"k": 3}', '1, a=1', 'b=2, a=1', '1, **{"a": 2}']
    exprs, wants = [], []
    for sig, body in sigs:
        for c in calls:
            env = {}
            try:
                exec('def f(%s): return %s' % (sig, body), env)
                w = 'OK ' + repr(eval('f(%s)' % c, env))
            except Exception:
                w = 'ERR'
            wants.append(w)
            exprs.append('(lambda %s: %s)(%s)' % (sig, body, c))
    outs = eval_many(exprs, log)
    for e, o, w in zip(exprs, outs, wants):
        good = o.startswith('ERR') if w == 'ERR' else o == w
        if not good:
            return {'witness': {'expression': e, 'real_library': o, 'oracle_python': w}, 'grid_points': len(exprs)}
    return {'witness': None, 'grid_points': len(exprs)}


def compr_grid_search(log):
    """comprehensions with several `if` guards per `for` clause: guards run left to right (a later guard may rely on an
    earlier one), on the first and on nested `for` clauses, list and dict forms."""
    exprs = [
        '[(x, y) for x in [0, 1] for y in [0, 1, 2] if y != 0 if 6 // y > 1]',
        '[x for x in [0, 1, 2, 3] if x != 0 if 6 // x > 1 if x != 3]',
        '[(x, y, z) for x in [1, 2] for y in [0, 2] if y if x // y for z in [0, 1, 5] if z if 5 // z == 1]',
        '{x: y for x in [0, 1] for y in [0, 1, 2] if y != 0 if 6 // y > 1}',
        '[y for x in [[0, 1], [2, 0]] for y in x if y if 4 // y]',
        '[x for x in [0, 1] if True if x]',
    ]
    wants = []
    for e in exprs:
        try:
            wants.append('OK ' + repr(eval(e)))
        except Exception:
            wants.append('ERR')
    outs = eval_many(exprs, log)
    for e, o, w in zip(exprs, outs, wants):
        good = o.startswith('ERR') if w == 'ERR' else o == w
        if not good:
            return {'witness': {'expression': e, 'real_library': o, 'oracle_python': w}, 'grid_points': len(exprs)}
    return {'witness': None, 'grid_points': len(exprs)}


def span_grid_search(log):
    """sources exercising every node builder of unit `spans`: each node's span must lie inside its parent's span."""
    build(log)
    srcs = [
        'def f(a, b: int, c = 1, d: str = "x", *args: int, e, **kwargs: int): pass',
        'def f(a, /, b, *, c: int = 2): return a',
        'def f(*args, **kwargs): pass',
        'def f(**kwargs: dict[str, int]) -> int: return 1',
        'f = lambda x, y = 1, *a, **k: x if y else a',
        'x = a if b else c if d else e',
        'x = -a + +b - ~c',
        'x = a + b * c not in d or not e and f < g',
        'x = a[1]\\ny = a[1:2]\\nz = a[:2:3]\\nw = a[::]\\nv = a[1:]\\nu = a[1, 2]',
        'x = [1, 2, 3]\\ny = []\\nz = [a for a in b if a if not a]\\nw = [a for a in b for c in a if c]',
        'def f():\\n    for x in y:\\n        if x:\\n            continue\\n        elif y:\\n            break\\n        else:\\n            pass\\n    return 1, 2',
        'for a, b in c: pass',
        'if a: pass\\nelif b: pass\\nelif c: pass\\nelse: pass',
        'def f(x: int, *, y: list[int] = [1], **kw: int) -> None:\\n    return',
    ]
    path = os.path.join(HERE, '.work', 'span_in.star')
    open(path, 'w').write('\n'.join(srcs) + '\n')
    p = subprocess.run([BIN, 'spanfile', path], capture_output=True, text=True, timeout=300)
    for src, o in zip(srcs, p.stdout.splitlines()):
        if o != 'OK':
            return {'witness': {'source': src.replace('\\n', '\n'), 'real_library': o, 'expected': 'every node span inside its parent span'}, 'grid_points': len(srcs)}
    return {'witness': None, 'grid_points': len(srcs)}


def range_grid_search(log):
    """range(a, b, s): len, first/last element, indexing at the ends, membership, equality, slicing, iteration vs Python."""
    M = 2**31
    ends = [-M, -M + 1, -7, -1, 0, 1, 2, 7, M - 2, M - 1]
    steps = [1, 2, 3, 7, M - 1, -1, -2, -3, -7, -M]
    exprs, wants = [], []

    def add(e, w):
        exprs.append(e)
        wants.append(w)
    for a in ends:
        for b in ends:
            for s in steps:
                r = range(a, b, s)
                src = 'range(%d, %d, %d)' % (a, b, s)
                n = len(r)
                add('len(%s)' % src, ('OK %d' % n) if n < M else 'ERR')
                if n >= M:
                    continue
                add('bool(%s)' % src, 'OK %s' % (n > 0))
                for i in (0, 1, -1, -2, n - 1, n, -n, -n - 1, n // 2):
                    if -M <= i < M:
                        try:
                            add('%s[%d]' % (src, i), 'OK %d' % r[i])
                        except IndexError:
                            add('%s[%d]' % (src, i), 'ERR')
                for x in (a, b, a + s, b - s, a + 2 * s, a + 1, b - 1, 0):
                    if -M <= x < M:
                        add('%d in %s' % (x, src), 'OK %s' % (x in r))
                if n <= 6:
                    add('list(%s)' % src, 'OK %r' % list(r))
                    for sl in ((None, None, -1), (1, None, None), (None, -1, 2), (-2, None, None), (None, None, 2)):
                        f = lambda v: '' if v is None else str(v)
                        r2 = r[slice(*sl)]
                        if all(-M <= q < M for q in (r2.start, r2.stop, r2.step)):
                            # (a sliced range whose own start/stop leave i32 cannot be represented: a clean error is accepted there)
                            add('list(%s[%s:%s:%s])' % (src, f(sl[0]), f(sl[1]), f(sl[2])), 'OK %r' % list(r2))
                for (a2, b2, s2) in ((a, b, s), (a, b + s, s), (a, b, 2 * s if -M <= 2 * s < M else s), (a + 1, b, s)):
                    if -M <= a2 < M and -M <= b2 < M and len(range(a2, b2, s2)) < M:
                        add('%s == range(%d, %d, %d)' % (src, a2, b2, s2), 'OK %s' % (r == range(a2, b2, s2)))
    outs = eval_many(exprs, log)
    for e, o, w in zip(exprs, outs, wants):
        good = o.startswith('ERR') if w == 'ERR' else o == w
        if not good:
            return {'witness': {'expression': e, 'real_library': o, 'oracle_python': w}, 'grid_points': len(exprs)}
    return {'witness': None, 'grid_points': len(exprs)}


def str_index_grid_search(log):
    """s[i] on the real library vs Python for ASCII and multi-byte strings, every i around the ends and the i32 extremes."""
    strs = ['', 'a', 'abc', 'h\u00e9llo', '\u65e5\u672c\u8a9ex', 'x\U0001f600y\u00e9']
    idx = list(range(-8, 9)) + [2**31 - 1, -(2**31), -(2**31) + 1]
    exprs, wants = [], []
    for t in strs:
        lit = '"' + ''.join(c if ord(c) < 128 else ('\\u%04x' % ord(c) if ord(c) < 0x10000 else '\\U%08x' % ord(c)) for c in t) + '"'
        exprs.append('len(%s)' % lit)
        wants.append('OK %d' % len(t))
        for i in idx:
            exprs.append('ord(%s[%d])' % (lit, i))
            try:
                wants.append('OK %d' % ord(t[i]))
            except IndexError:
                wants.append('ERR')
    outs = eval_many(exprs, log)
    for e, o, w in zip(exprs, outs, wants):
        good = o.startswith('ERR') if w == 'ERR' else o == w
        if not good:
            return {'witness': {'expression': e, 'real_library': o, 'oracle_python': w}, 'grid_points': len(exprs)}
    return {'witness': None, 'grid_points': len(exprs)}


def find_witness(prop, v, repo, log):
    if v.get('backend') == 'kani/cbmc':
        return kani_replay(v, log)
    oid = v.get('obligation', '')
    fn = v.get('function', '')
    if prop == 'C11':
        build(log)
        p = subprocess.run([BIN, 'mapops'], capture_output=True, text=True, timeout=600)
        o = p.stdout.strip()
        loc = [l for l in p.stderr.splitlines() if 'panicked at' in l][:1]
        if o.startswith('OK'):
            return {'witness': None, 'search': 'SmallMap scenarios (sizes 0..40 across the index threshold; remove by key/index at every position, clear+reuse, pop, reverse, retain, sort) vs a list model: ' + o}
        return {'witness': {'real_library': o + (' ' + loc[0] if loc else ''), 'oracle': 'list-of-pairs model'},
                'search': 'SmallMap scenarios (sizes 0..40 across the index threshold) vs a list model'}
    if 'C05.lex.fstring' in oid or 'track_fstring' in fn:
        exprs = ['f"{)}"', 'f"{a]}"', 'f"{a[0]]}"', "f\'\'\'{ (a)) }\'\'\'", '(f"{x)}"', 'f"{(a)}"', 'f"{[a][0]}"', 'f"{((a)}"']
        outs = eval_many(exprs, log)
        for e, o in zip(exprs, outs):
            if o == 'PANIC':
                return {'witness': {'expression': e, 'real_library': o, 'expected': 'a value or a located error'}, 'grid_points': len(exprs),
                        'search': 'f-strings whose replacement field has unmatched / matched round and square brackets'}
        return {'witness': None, 'grid_points': len(exprs), 'search': 'f-strings whose replacement field has unmatched / matched round and square brackets'}
    if 'C05.span.' in oid or (prop == 'C05' and 'ParserRd' in fn):
        r = span_grid_search(log)
        r['search'] = 'sources covering every node builder of unit spans (parameters with types and defaults, lambda, conditional, unary, def / for / if, index / slice, return, lists and comprehensions): span containment checked on the parsed tree of the real library'
        return r
    if prop == 'C06':
        r = parser_grid_search(log)
        r['search'] = 'a OP1 b OP2 c for all 21x21 operator pairs as statement, call argument and under prefix not: acceptance and grouping vs CPython ast'
        return r
    if 'C15.calls.' in oid:
        r = ticks_grid_search(log)
        r['search'] = 'N calls of each kind (def, lambda, list/str/dict method, method inside def, for loop) vs Evaluator::get_total_tick_count on the real library'
        return r
    if 'C10.conv.' in oid or 'from_f64' in fn:
        r = float_to_int_grid_search(log)
        r['search'] = 'int(f) for doubles around 2^k (k up to 200) and their neighbours on the real library vs Python'
        return r
    if 'C09.hash' in oid or 'get_hash' in fn or 'write_hash' in fn:
        r = hash_grid_search(log)
        r['search'] = 'n vs float(n) for exactly representable n around 2^k: equality and dict-key interchangeability on the real library'
        return r
    if 'C09.value.' in oid:
        r = hash_grid_search(log)
        if not r.get('witness'):
            r2 = int_float_grid_search(log, exact_only=True)
            r2['grid_points'] = r2.get('grid_points', 0) + r.get('grid_points', 0)
            r = r2
        r['search'] = 'n vs float(n) for exactly representable n around 2^k (equality, dict keys), then exactly representable ints around 2^31..2^100 x floats around the same powers: ==, < on the real library vs exact comparison'
        return r
    if 'C09.cmp.' in oid or 'NumRef' in fn:
        r = int_float_grid_search(log)
        r['search'] = 'ints around 2^31..2^100 x floats around the same powers (+inf, -inf, nan): ==, < on the real library vs exact comparison'
        return r
    if prop in ('C10', 'C09') and ('C10.' in oid or 'C09.' in oid or 'Starlark' in fn or 'InlineInt' in fn):
        op = op_for_obligation(oid, fn)
        if op:
            r = grid_search_int(op, log)
            r['search'] = 'boundary grid for `%s` on the real library vs Python integers' % op
            return r
    if prop == 'C12' and ('write_return' in fn or 'C12.bc.' in oid):
        r = loop_exit_grid_search(log)
        r['search'] = '3 container kinds x 7 ways of leaving a for loop (exhaustion, break, five return forms), then a mutation, on the real library'
        return r
    if prop == 'C08' and ('C08.bind' in oid or 'collect_inline_impl' in fn):
        r = call_grid_search(log)
        r['search'] = '10 signatures x 16 call shapes (positional, named, *seq, **map) on the real library vs CPython call rules'
        return r
    if 'C01.augassign' in oid or 'AssignModifyLhs' in fn or 'AssignOnWriteBc' in fn:
        r = augassign_grid_search(log)
        r['search'] = 'x[i] OP= f() where f changes x[i] (lists, dicts, nested lists; += *= -=) on the real library vs Python'
        return r
    if 'C01.compr.' in oid or 'compile_ifs' in fn:
        r = compr_grid_search(log)
        r['search'] = 'comprehensions with several guards per for clause (first and nested clauses, list and dict) on the real library vs Python'
        return r
    if '.range.' in oid or 'Range' in fn or fn.endswith('::range'):
        r = range_grid_search(log)
        r['search'] = 'range(a, b, s) for a, b in 10 boundary values x 10 steps: len, bool, r[i] at the ends, membership, equality, small slices and list() on the real library vs Python range'
        return r
    if 'C01.str.at' in oid or (prop == 'C01' and 'StarlarkStr' in fn):
        r = str_index_grid_search(log)
        r['search'] = '6 strings (empty, ASCII, 2-, 3- and 4-byte characters) x i in [-8,8]+i32 extremes: len(s) and ord(s[i]) on the real library vs Python'
        return r
    if prop == 'C01':
        r = slice_grid_search(log)
        r['search'] = 'all len<=6 x start/stop in [-8,8]+extremes x step on the real library vs Python slicing'
        return r
    if 'C07.slots.' in oid or 'get_slot_local' in fn:
        build(log)
        progs = ['def outer():\n    def inner():\n        return x\n    r = inner()\n    x = 1\n    return r\nouter()',
                 'def outer():\n    f = lambda: y\n    r = f()\n    y = 2\n    return r\nouter()',
                 'def outer():\n    def inner():\n        return z\n    if False:\n        z = 1\n    return z\nouter()',
                 'def g():\n    return w\n    w = 1\ng()']
        n = 0
        for src in progs:
            p = subprocess.run([BIN, 'evalseq', src], capture_output=True, text=True, timeout=120)
            o = (p.stdout.strip().splitlines() or ['?'])[-1]
            n += 1
            if not o.startswith('ERR'):
                return {'witness': {'program': src, 'real_library': o + (' (panic)' if 'panicked' in p.stderr else ''), 'expected': 'ERR Local variable ... referenced before assignment'},
                        'grid_points': n, 'search': 'reads of unassigned locals, plain and captured by def / lambda'}
        return {'witness': None, 'grid_points': n, 'search': 'reads of unassigned locals, plain and captured by def / lambda'}
    if 'eval_module' in oid or fn.endswith('::eval_module'):
        build(log)
        p = subprocess.run([BIN, 'module-depth'], capture_output=True, text=True, timeout=300)
        o = p.stdout.strip()
        return {'witness': None if o.startswith('OK') else {'probe': 'five modules evaluated on ONE evaluator (ok, run-time error, stack overflow, cancellation seen by the end-of-module check, cancellation inside a def); Evaluator::call_stack_count() after each',
                                                          'real_library': o, 'expected': 'depth=0 after every evaluation'},
                'search': 'verif_replay module-depth'}
    if prop == 'C07' and 'top_frame' in oid:
        build(log)
        p = subprocess.run([BIN, 'topframe'], capture_output=True, text=True)
        o = p.stdout.strip()
        ok = o.startswith('OK ("top_frame_name"')
        return {'witness': None if ok else {'probe': 'Evaluator::call_stack_top_frame() from a native function called as f() -> g() -> top_frame_name()',
                                             'real_library': o, 'expected': 'the frame of top_frame_name (the innermost call)'}}
    if prop == 'C07' and ('str.at' in oid or 'StarlarkStr' in fn):
        idx = [-2147483648, -2147483647, -4, -3, -1, 0, 2, 3, 2147483647]
        exprs = ['"abc"[%d]' % i for i in idx] + ['"h\\u00e9llo"[%d]' % i for i in idx]
        outs = eval_many(exprs, log)
        for e, o in zip(exprs, outs):
            if o == 'PANIC':
                return {'witness': {'expression': e, 'real_library': o, 'expected': 'a value or an index error'}}
        return {'witness': None, 'grid_points': len(exprs)}
    if prop == 'C07' and 'to_diagnostic_frames' in oid or 'to_function_values' in oid:
        build(log)
        p = subprocess.run([BIN, 'callstack-empty'], capture_output=True, text=True)
        o = p.stdout.strip()
        return {'witness': {'probe': 'Evaluator::call_stack() on an idle evaluator', 'real_library': o} if o.startswith('PANIC') else None}
    return {'witness': None, 'search': 'no witness search defined for this obligation'}


def main(prop, path):
    d = json.load(open(path))
    print(json.dumps({k: d.get(k) for k in ('property', 'obligation', 'function', 'message', 'repo_location', 'witness',
                                            'replayed_on_real_code', 'counterexample')}, indent=1))
    r = find_witness(prop, d, '/repo', lambda *a: None)
    print('re-executed now:', json.dumps(r, indent=1))
    return 0
