"""Mutant self-test of the contracts (DESIGN 2.4-4).

A committed list of one-token semantic mutants is applied to an IN-MEMORY copy of the repository file handed to the
extractor; every mutant must make a named obligation fail (the contracts are strong enough to notice the regression)
and the unmutated unit must verify.  Nothing under /repo is touched.
  ./check selftest [UNIT ...]
"""
import json
import os
import subprocess
import sys
import concurrent.futures as cf

HERE = os.path.dirname(os.path.abspath(__file__))
sys.path.insert(0, os.path.join(HERE, 'vx'))
from extract import Extractor, Undecided  # noqa: E402

REPO = os.environ.get('VERIF_REPO', '/repo')
WORK = os.path.join(HERE, '.work', 'selftest')

INT = 'starlark/src/values/types/int/int_or_big.rs'
INL = 'starlark/src/values/types/int/inline_int.rs'
BIG = 'starlark/src/values/types/bigint.rs'
IDX = 'starlark/src/values/index.rs'
CI = 'starlark_syntax/src/convert_indices.rs'
PRD = 'starlark_syntax/src/syntax/parser_rd.rs'
CCS = 'starlark/src/eval/runtime/cheap_call_stack.rs'
EVL = 'starlark/src/eval/runtime/evaluator.rs'
LEX = 'starlark_syntax/src/lexer.rs'
PSP = 'starlark/src/eval/runtime/params/spec.rs'
SIMD = 'starlark_map/src/vec_map/simd.rs'
NUM = 'starlark/src/values/types/num/value.rs'
FLT = 'starlark/src/values/types/float/float.rs'
PI32 = 'starlark/src/values/types/int/pointer_i32.rs'
INSTR = 'starlark/src/eval/bc/instr_impl.rs'
STRT = 'starlark/src/values/types/string/str_type.rs'
SMAP = 'starlark_map/src/small_map.rs'
RNG = 'starlark/src/values/types/range/range_type.rs'
EVALRS = 'starlark/src/eval.rs'
CALLRS = 'starlark_syntax/src/syntax/call.rs'
COMPR = 'starlark/src/eval/compiler/compr.rs'
BCSTMT = 'starlark/src/eval/bc/compiler/stmt.rs'
LISTM = 'starlark/src/values/types/list/methods.rs'
LISTV = 'starlark/src/values/types/list/value.rs'
TUPV = 'starlark/src/values/types/tuple/value.rs'
AMOD = 'starlark/src/eval/bc/compiler/assign_modify.rs'
BCCALL = 'starlark/src/eval/bc/compiler/call.rs'
VECMAP = 'starlark_map/src/vec_map.rs'
BCW = 'starlark/src/eval/bc/writer.rs'
RNGG = 'starlark/src/values/types/range/globals.rs'

# (unit, file, old, new, expected obligation substring)
MUTANTS = [
    ('int', INT, 'let offset = if sig < 0 && a % b != 0 { 1 } else { 0 };', 'let offset = if sig < 0 && a % b != 0 { 0 } else { 0 };', 'C10.floor_div.small'),
    ('int', INT, 'Ok(StarlarkInt::from((a / b) - offset))', 'Ok(StarlarkInt::from((a / b) - (offset - offset)))', 'C10.floor_div.big'),
    ('int', INT, 'if a == i32::MIN && b == -1 {\n            return Ok(InlineInt::ZERO);', 'if a == i32::MIN && b == -1 {\n            return Ok(InlineInt::MINUS_ONE);', 'C10.percent.small'),
    ('int', INT, 'Ok(if b.signum() != r.signum() {\n                r.checked_add(b)', 'Ok(if b.signum() == r.signum() {\n                r.checked_add(b)', 'percent_small'),
    ('int', INT, 'if other > 100_000 {', 'if other > 1_000_000 {', 'C10.left_shift.err'),
    ('int', INT, 'Ok(StarlarkInt::Small(InlineInt::MINUS_ONE))\n            } else {\n                Ok(StarlarkInt::Small(InlineInt::ZERO))\n            };', 'Ok(StarlarkInt::Small(InlineInt::ZERO))\n            } else {\n                Ok(StarlarkInt::Small(InlineInt::ZERO))\n            };', 'C10.right_shift.val'),
    ('int', INT, 'if let Some(c) = a.checked_add(b) {\n                return StarlarkInt::Small(c);', 'if let Some(c) = a.checked_add(a) {\n                return StarlarkInt::Small(c);', 'C10.ref.add.val'),
    ('int', INT, 'StarlarkInt::from(self.to_big() - other.to_big())', 'StarlarkInt::from(other.to_big() - self.to_big())', 'C10.ref.sub.val'),
    ('int', INT, '(StarlarkIntRef::Small(a), b) => a.to_i32() * b,', '(StarlarkIntRef::Small(a), b) => a.to_i32() * self,', 'C10.ref.mul.val'),
    ('int', INT, 'match InlineInt::try_from(&value) {\n            Ok(i) => StarlarkInt::Small(i),\n            Err(_) => StarlarkInt::Big(StarlarkBigInt::unchecked_new(value)),', 'match InlineInt::try_from(&value) {\n            Ok(i) => StarlarkInt::Small(i.checked_add(InlineInt::ZERO).unwrap_or(InlineInt::ZERO)),\n            Err(_) => StarlarkInt::Big(StarlarkBigInt::unchecked_new(value)),', 'EQUIVALENT'),
    ('int', INT, 'match InlineInt::try_from(&value) {\n            Ok(i) => StarlarkInt::Small(i),', 'match InlineInt::try_from(&value) {\n            Ok(i) if i != 0 => StarlarkInt::Small(i),\n            Ok(_) => StarlarkInt::Big(StarlarkBigInt::unchecked_new(value)),', 'unchecked_new'),
    ('int', INL, 'if rhs >= 32 {', 'if rhs >= 33 {', 'checked_shl'),
    ('int', INL, 'self.checked_sub_i32(rhs.0)', 'self.checked_sub_i32(self.0)', 'C10.inline.checked_sub'),
    ('int', INL, 'if hint::likely(i >= Self::MIN.0 && i <= Self::MAX.0) {', 'if hint::likely(i > Self::MIN.0 && i <= Self::MAX.0) {', 'try_from'),
    ('int', BIG, 'Sign::Plus => 2,\n            Sign::Minus => -2,', 'Sign::Plus => 1,\n            Sign::Minus => -2,', 'C09.int.cmp_small_big'),
    ('int', BIG, 'Self::cmp_small_big(b, a).reverse()', 'Self::cmp_small_big(b, a)', 'C09.int.cmp_big_small'),
    ('int', INT, '(StarlarkIntRef::Big(a), StarlarkIntRef::Small(b)) => {\n                StarlarkBigInt::cmp_big_small(a, *b)', '(StarlarkIntRef::Big(a), StarlarkIntRef::Small(b)) => {\n                StarlarkBigInt::cmp_small_big(*b, a)', 'C09.int.cmp_is_order_of_views'),
    ('slice', IDX, 'let def_end = if stride < 0 { -1 } else { len };', 'let def_end = if stride < 0 { 0 } else { len };', 'C01.slice.indices'),
    ('slice', IDX, 'if i < 0 || i >= len {', 'if i < 0 || i > len {', 'C01.index.convert_index'),
    ('slice', IDX, 'let i = if x < 0 { len + x } else { x };', 'let i = if x <= 0 { len + x } else { x };', 'C01.index.aux'),
    ('slice', IDX, 'let clamp = if stride < 0 { -1 } else { 0 };', 'let clamp = if stride <= 1 { -1 } else { 0 };', 'C01.slice.indices'),
    ('range', RNG, 'let i = ((dist - 1) / step + 1) as i32;', 'let i = (dist / step + 1) as i32;', 'C01.range.length'),
    ('range', RNG, '(self.start as i64 + self.step.get() as i64 * index as i64) as i32', 'self.start + self.step.get() * index', 'Range::at'),
    ('range', RNG, 'if other < self.start || other >= self.stop {', 'if other < self.start || other > self.stop {', 'C01.range.is_in'),
    ('range', RNG, 'if other > self.start || other <= self.stop {', 'if other > self.start || other < self.stop {', 'C01.range.is_in'),
    ('range', RNG, 'if self_length == 1 || other_length == 1 {', 'if self_length == 2 || other_length == 1 {', 'C01.range.equals'),
    ('range', RNG, 'stop: i32::try_from(self.start as i64 + stop as i64 * self.step.get() as i64)', 'stop: i32::try_from(self.stop as i64 + stop as i64 * self.step.get() as i64)', 'C01.range.slice'),
    ('range', RNG, '(self.start as i64).saturating_add(index.saturating_mul(self.step.get() as i64));', '(self.start as i64).saturating_add(index.saturating_add(self.step.get() as i64));', 'C01.range.rem'),
    ('range', RNG, 'Some(heap.alloc(rem_range.start))', 'Some(heap.alloc(rem_range.stop))', 'C01.range.iter_next'),
    ('range', RNG, 'Ok(length) => (length as usize, Some(length as usize)),', 'Ok(length) => (length as usize + 1, Some(length as usize)),', 'C01.range.size_hint'),
    ('range', RNG, '(self.start > self.stop && self.step.get() < 0)', '(self.start >= self.stop && self.step.get() < 0)', 'C01.range.to_bool'),
    ('range', RNGG, 'let stop = a2.unwrap_or(a1);', 'let stop = a2.unwrap_or(0);', 'C01.range.builtin'),
    ('range', RNGG, 'None => 0,', 'None => a1,', 'C01.range.builtin'),
    ('slice', CI, '} else if val >= limit {', '} else if val > limit + 1 {', 'C01.syntax.bound'),
    ('slice', CI, 'let end = if end < 0 { end + len } else { end };', 'let end = if end < 0 { end + len + 1 } else { end };', 'C01.syntax.convert_indices'),
    ('prec', PRD, 'Token::Caret => (BinOp::BitXor, 9, 10),', 'Token::Caret => (BinOp::BitXor, 11, 12),', 'C06.prec.bp'),
    ('prec', PRD, 'Token::Minus => (BinOp::Subtract, 15, 16),', 'Token::Minus => (BinOp::Subtract, 16, 15),', 'C06.prec.bp'),
    ('prec', PRD, 'Token::Percent => (BinOp::Percent, 17, 18),', 'Token::Percent => (BinOp::Divide, 17, 18),', 'C06.prec.bp.op'),
    ('prec', PRD, '                | BinOp::In\n', '\n', 'C06.prec.is_comparison'),
    ('prec', PRD, 'Token::And => (BinOp::And, 3, 4),', 'Token::And => (BinOp::And, 1, 2),', 'C06.prec.bp'),
    ('limits', CCS, 'if unlikely(self.count >= self.stack.len()) {', 'if unlikely(self.count > self.stack.len()) {', 'push'),
    ('limits', CCS, '        self.count += 1;\n        Ok(())', '        Ok(())', 'C15.stack.push'),
    ('limits', CCS, 'self.stack[self.count - 1 - n].location()', 'self.stack[self.count - n].location()', 'nth_location'),
    ('limits', CCS, 'let first = if self.count == 0 { 0 } else { 1 };\n        let mut frames', 'let first = 1;\n        let mut frames', 'to_diagnostic_frames'),
    ('limits', EVL, '        self.call_stack.pop();\n        res', '        if res.is_ok() {\n            self.call_stack.pop();\n        }\n        res', 'C07.with_call_stack.depth_restored'),
    ('limits', EVL, 'let current = self.get_total_tick_count();\n\n        if current > limit {', 'let current = self.get_total_tick_count();\n\n        if current >= limit {', 'C15.ticks.check'),
    ('limits', EVL, '            self.infrequent_instr_check_counter = 0;\n        };', '            self.infrequent_instr_check_counter = 1;\n        };', 'C15.ticks.progress'),
    ('limits', EVL, 'self.total_tick_count_at_last_infrequent_check +=\n                self.infrequent_instr_check_counter as u64;', 'self.total_tick_count_at_last_infrequent_check +=\n                INFREQUENT_INSTRUCTION_CHECK_PERIOD as u64;', None),
    ('lexesc', LEX, "Some('U') => res.push(Self::escape_char(it, 8, 8, 16)?),", "Some('U') => res.push(Self::escape_char(it, 9, 9, 16)?),", 'escape'),
    ('lexesc', LEX, 'value = (value * radix) + v;', 'value = (value * radix * radix) + v;', 'escape_char'),
    ('params', PSP, 'self.positional = i + 1;', 'self.positional = i;', 'C08.builder.add'),
    ('params', PSP, '        self.args = Some(self.params.len() - 1);\n        self.current_style = CurrentParameterStyle::NamedOnly;', '        self.args = Some(self.params.len() - 1);', 'C08.builder.args'),
    ('params', PSP, '        self.current_style = CurrentParameterStyle::NoMore;\n        self.kwargs = Some(self.params.len() - 1);', '        self.current_style = CurrentParameterStyle::NoMore;\n        self.kwargs = Some(self.params.len());', 'C08.builder.kwargs'),
    ('map', SIMD, 'while i < array.len() {\n        if array[i] == hash {', 'while i + 1 < array.len() {\n        if array[i] == hash {', 'C11.probe'),
    ('numhash', BIG, '        Ok(NumRef::Int(StarlarkIntRef::Big(self)).get_hash())', '        Ok(StarlarkHashValue::hash_64(NumRef::Int(StarlarkIntRef::Big(self)).get_hash_64() >> 1))', 'C09.hash.big_int_get_hash'),
    ('numhash', PI32, '    fn get_hash(&self, _private: Private) -> crate::Result<StarlarkHashValue> {\n        Ok(NumRef::Int(StarlarkIntRef::Small(self.get())).get_hash())\n    }\n', '', 'C09.hash.small_int_get_hash'),
    ('numhash', FLT, 'hasher.write_u64(NumRef::from(self.0).get_hash_64());', 'hasher.write_u64(NumRef::from(self.0).get_hash_64() ^ 1);', 'C09.hash.float_write_hash'),
    ('int', PI32, 'Some(other) => Ok(heap.alloc(NumRef::Int(StarlarkIntRef::Small(self.get())) - other)),', 'Some(other) => Ok(heap.alloc(other - NumRef::Int(StarlarkIntRef::Small(self.get())))),', 'C10.value.small.sub'),
    ('int', PI32, 'Some(StarlarkIntRef::Small(i)) => Ok(Value::new_int(self.get() | i)),', 'Some(StarlarkIntRef::Small(i)) => Ok(Value::new_int(self.get() ^ i)),', 'C10.value.small.bit_or'),
    ('int', BIG, 'Some(other) => Ok(heap.alloc(StarlarkIntRef::Big(self).right_shift(other)?)),', 'Some(other) => Ok(heap.alloc(StarlarkIntRef::Big(self).left_shift(other)?)),', 'C10.value.big.right_shift'),
    ('int', NUM, '            return Num::Int(a - b);', '            return Num::Int(b - a);', 'C10.num.sub'),
    ('numcmp', INT, 'let i = InlineInt::try_from(f as i32).unwrap_or(InlineInt::ZERO);\n        if i.to_f64() == f {\n            Ok(StarlarkInt::Small(i))', 'let i = f as i64;\n        if i as f64 == f {\n            Ok(StarlarkInt::from(i))', 'C10.conv.from_f64_exact'),
    ('calls', INSTR, '            // A method call is a call: count the tick like `call_method_common` does.\n            eval.report_forward_progress()?;\n', '', 'C15.calls.known_method_call_ticks'),
    ('calls', INSTR, '    ) -> crate::Result<()> {\n        eval.report_forward_progress()?;\n        let arguments = args.pop_from_stack(frame);\n        let r = eval.with_call_stack(', '    ) -> crate::Result<()> {\n        let arguments = args.pop_from_stack(frame);\n        let r = eval.with_call_stack(', 'C15.calls.frozen_def_call_ticks'),
    ('calls', INSTR, '        if let Err(e) = eval.report_forward_progress() {\n            return InstrControl::Err(e);\n        }\n', '', 'C15.calls.loop_backedge_ticks'),
    ('calls', INSTR, '            // A method call is a call: count the tick like `call_method_common` does.\n            eval.report_forward_progress()?;\n', '            eval.report_forward_progress()?;\n            eval.report_forward_progress()?;\n', 'C15.calls.known_method_call.once'),
    ('calls', INSTR, '        if let Err(e) = eval.report_forward_progress() {\n            return InstrControl::Err(e);\n        }\n', '        if let Err(e) = eval.report_forward_progress() {\n            return InstrControl::Err(e);\n        }\n        if let Err(e) = eval.report_forward_progress() {\n            return InstrControl::Err(e);\n        }\n', 'C15.calls.loop_backedge.once'),
    ('numcmp', NUM, '(Some(i), _) => i as u64,', '(Some(i), _) => i as u32 as u64,', 'C09.hash64.pin'),
    ('numcmp', NUM, '            } else if f == 0.0 {\n                // Both 0.0', '            } else if f == 1.0 {\n                // Both 0.0', 'C09.hash64.pin'),
    ('numcmp', NUM, '            Self::Int(i) => i.to_i32(),\n            Self::Float(f) => Self::f64_to_i32_exact(f.0),', '            Self::Int(_) => None,\n            Self::Float(f) => Self::f64_to_i32_exact(f.0),', 'C09.hash64.as_int'),
    ('numcmp', NUM, 'float_hash(b.to_f64())', 'b.to_f64().to_bits() ^ 1', 'C09.hash64.pin'),
    ('prec', PRD, 'if self.peek() == Some(&Token::Not) && min_bp <= 5 {', 'if self.peek() == Some(&Token::Not) && min_bp <= 6 {', 'C06.pratt.parse_expr.not_prefix_level'),
    ('prec', PRD, 'if self.peek() == Some(&Token::Not) && min_bp <= 5 {', 'if self.peek() == Some(&Token::Not) {', 'C06.pratt.parse_expr.not_prefix_level'),
    ('limits', EVALRS, '        let res = compiler.eval_module(cst, local_names);\n', '        let res = compiler.eval_module(cst, local_names);\n        self.run_infrequent_instr_checks()?;\n', 'C07.eval_module.depth_restored'),
    ('limits', EVALRS, '        // Clean up the world, putting everything back\n        self.call_stack.pop();\n', '        // Clean up the world, putting everything back\n        if res.is_ok() { self.call_stack.pop(); }\n', 'C07.eval_module.depth_restored'),
    ('limits', EVALRS, '        self.call_stack.push(Value::new_none(), None).unwrap();\n', '        self.call_stack.push(Value::new_none(), None).unwrap();\n        self.call_stack.push(Value::new_none(), None)?;\n', 'C07.eval_module.depth_restored'),
    ('callargs', CALLRS, 'if stage != ArgsStage::Positional {', 'if stage > ArgsStage::Named {', 'C08.callargs.accept_iff'),
    ('callargs', CALLRS, '} else if !named_args.insert(&n.node) {', '} else if !named_args.insert(&n.node) && num_named > 1 {', 'C08.callargs.accept_iff'),
    ('callargs', CALLRS, '                    if stage > ArgsStage::Named {\n                        return err(arg.span, "Args array after another args or kwargs");', '                    if stage > ArgsStage::Args {\n                        return err(arg.span, "Args array after another args or kwargs");', 'callargs'),
    ('callargs', CALLRS, 'named: &args[num_pos..num_pos + num_named],', 'named: &args[num_pos..num_pos + num_named + 1],', 'CallArgsUnpack'),
    ('callargs', CALLRS, 'pos: &args[..num_pos],', 'pos: &args[..num_named],', 'C08.callargs.split'),
    ('callargs', CALLRS, 'if stage == ArgsStage::Kwargs {', 'if stage == ArgsStage::Args {', 'C08.callargs'),
    ('spans', PRD, '                let name = self.parse_assign_ident()?;\n                let ty = self.parse_optional_type()?;\n                let r = self.last_end;\n                Ok(Parameter::KwArgs(name, ty).ast(l, r))', '                let name = self.parse_assign_ident()?;\n                let r = self.last_end;\n                let ty = self.parse_optional_type()?;\n                Ok(Parameter::KwArgs(name, ty).ast(l, r))', 'Parameter'),
    ('spans', PRD, '                    let default = self.parse_test()?;\n                    let r = self.last_end;\n                    Ok(Parameter::Normal(name, ty, Some(Box::new(default))).ast(l, r))', '                    let r = self.last_end;\n                    let default = self.parse_test()?;\n                    Ok(Parameter::Normal(name, ty, Some(Box::new(default))).ast(l, r))', 'parse_def_param'),
    ('spans', PRD, '            let l = expr.span.begin().get() as usize;\n            self.advance();\n            let cond = self.parse_or_test()?;', '            self.advance();\n            let l = self.pos();\n            let cond = self.parse_or_test()?;', 'continue_ternary'),
    ('spans', PRD, '        let body = self.parse_test()?;\n        let r = self.last_end;\n        Ok(Expr::Lambda(LambdaP {', '        let r = self.last_end;\n        let body = self.parse_test()?;\n        Ok(Expr::Lambda(LambdaP {', 'parse_lambda'),
    ('spans', PRD, '                let r = else_clause.span.end().get() as usize;\n', '                let r = r;\n', 'if_body'),
    ('spans', PRD, '        let body = self.parse_suite()?;\n        let r = self.last_end;\n        let var = grammar_util::check_assign', '        let r = self.last_end;\n        let body = self.parse_suite()?;\n        let var = grammar_util::check_assign', 'for_stmt'),
    ('spans', PRD, '                    let second = self.parse_test()?;\n                    self.expect(&Token::ClosingSquare)?;\n                    let r = self.last_end;', '                    let r = self.last_end;\n                    let second = self.parse_test()?;\n                    self.expect(&Token::ClosingSquare)?;', 'index_or_slice'),
    ('spans', PRD, '                    _ => Some(self.parse_test_list(false)?),\n                };\n                let r = self.last_end;', '                    _ => Some(self.parse_test_list(false)?),\n                };\n                let r = l + 6;', 'small_stmt'),
    ('smallmap', SMAP, '            self.create_index(self.len() + additional);', '            self.index = Some(Box::new(HashTable::with_capacity(self.len() + additional)));', 'C11.smallmap.reserve.wf'),
    ('compr', COMPR, '                ClauseP::For(f) => {\n                    ifs.reverse();\n                    return Ok((Some(f), ifs));\n                }', '                ClauseP::For(f) => return Ok((Some(f), ifs)),', 'C01.compr.ifs.source_order'),
    ('compr', COMPR, '        ifs.reverse();\n        Ok((None, ifs))', '        Ok((None, ifs))', 'C01.compr.ifs.source_order'),
    ('compr', COMPR, '                    if let ExprCompiledBool::Const(true) = &x.node {', '                    if let ExprCompiledBool::Const(_) = &x.node {', 'C01.compr'),
    ('spans', PRD, '            let v = self.parse_test()?;\n            entries.push((k, v));\n        }\n        self.expect(&Token::ClosingCurly)?;\n        let r = self.last_end;', '            let v = self.parse_test()?;\n            entries.push((k, v));\n        }\n        let r = l + 1;\n        self.expect(&Token::ClosingCurly)?;', 'dict'),
    ('spans', PRD, '            let (for_clause, clauses) = self.parse_comp_clauses()?;\n            self.expect(&Token::ClosingCurly)?;\n            let r = self.last_end;', '            let r = self.last_end;\n            let (for_clause, clauses) = self.parse_comp_clauses()?;\n            self.expect(&Token::ClosingCurly)?;', 'dict'),
    # negative controls: behaviour-preserving edits that must NOT be flagged
    ('range', RNG, '        (self.start < self.stop && self.step.get() > 0)\n            || (self.start > self.stop && self.step.get() < 0)', '        (self.start > self.stop && self.step.get() < 0)\n            || (self.start < self.stop && self.step.get() > 0)', 'EQUIVALENT'),
    ('callargs', CALLRS, 'let mut num_named = 0;', 'let mut num_named = 0;\n        let _unused = 0;', 'EQUIVALENT'),
    ('limits', EVALRS, '        self.call_stack.pop();\n', '        self.call_stack.pop();\n        let _unused = 1;\n', 'EQUIVALENT'),
    ('compr', COMPR, '                        // If the condition is always true, skip the clause.\n                        continue;', '                        continue;', 'EQUIVALENT'),
    ('spans', PRD, '                let name = self.parse_assign_ident()?;\n                let ty = self.parse_optional_type()?;\n                let r = self.last_end;\n                Ok(Parameter::KwArgs(name, ty).ast(l, r))', '                let name = self.parse_assign_ident()?;\n                let ty = self.parse_optional_type()?;\n                let end = self.last_end;\n                Ok(Parameter::KwArgs(name, ty).ast(l, end))', 'EQUIVALENT'),
    ('bind', PSP, '            && args.args().is_none()\n            && args.kwargs().is_none()', '            && args.args().is_none()', 'collect_inline_impl'),
    ('bind', PSP, '            && args.named().is_empty()\n', '', 'collect_inline_impl'),
    ('bind', PSP, '        if args.pos().len() == (self.indices.num_positional as usize)\n            && args.pos().len() == self.param_kinds.len()', '        if args.pos().len() <= (self.indices.num_positional as usize)\n            && args.pos().len() == self.param_kinds.len()', 'collect_inline_impl'),
    ('bind', PSP, '            && args.pos().len() == self.param_kinds.len()\n', '', 'collect_inline_impl'),
    ('bind', PSP, '            return Ok(());\n        }\n\n        self.collect_slow(args, slots, heap)', '            return self.collect_slow(args, slots, heap);\n        }\n\n        self.collect_slow(args, slots, heap)', 'C08.bind.fast_path'),
    ('bcret', BCSTMT, '        bc.write_iter_stop(span);\n        if compiler.has_return_type {\n            expr.write_bc_cb(bc, |slot, bc| {\n                bc.write_instr::<InstrReturnCheckType>(span, slot);\n            });\n        } else if let Some(value) = expr.as_value() {', '        if compiler.has_return_type {\n            expr.write_bc_cb(bc, |slot, bc| {\n                bc.write_instr::<InstrReturnCheckType>(span, slot);\n            });\n            return;\n        }\n        bc.write_iter_stop(span);\n        if let Some(value) = expr.as_value() {', 'write_return'),
    ('bcret', BCSTMT, '        bc.write_iter_stop(span);\n        if compiler.has_return_type {', '        if compiler.has_return_type {', 'write_return'),
    ('spans', PRD, '                    let value = self.parse_test()?;\n                    let r = self.last_end;\n                    Ok(Argument::Named(name, value).ast(l, r))', '                    let r = self.last_end;\n                    let value = self.parse_test()?;\n                    Ok(Argument::Named(name, value).ast(l, r))', 'argument'),
    ('spans', PRD, '                    let expr = self.continue_ternary(expr)?;\n                    let r = self.last_end;\n                    Ok(Argument::Positional(expr).ast(l, r))', '                    let r = self.last_end;\n                    let expr = self.continue_ternary(expr)?;\n                    Ok(Argument::Positional(expr).ast(l, r))', 'argument'),
    ('spans', PRD, '                    let ident = self.parse_identifier_string()?;\n                    let r = self.last_end;\n                    lhs = Expr::Dot(Box::new(lhs), ident).ast(l, r);', '                    let r = self.last_end;\n                    let ident = self.parse_identifier_string()?;\n                    lhs = Expr::Dot(Box::new(lhs), ident).ast(l, r);', 'continue_primary'),
    ('listops', LISTM, 'if index < 0 || index >= this.len() as i32 {', 'if index < 0 || index > this.len() as i32 {', 'pop'),
    ('listops', LISTM, 'let index = index.unwrap_or_else(|| (this.len() as i32) - 1);', 'let index = index.unwrap_or_else(|| (this.len() as i32));', 'C01.list.pop'),
    ('listops', LISTM, 'if index < 0 || index >= this.len() as i32 {', 'if index >= this.len() as i32 {', 'pop'),
    ('listops', LISTM, 'let index = convert_index(this.len() as i32, index);', 'let index = index as usize;', 'insert'),
    ('bcorder', AMOD, '                        bc.write_instr::<InstrArrayIndex>(span, (array, index, temp_slot.to_out()));\n                        rhs.write_bc(rhs_slot.to_out(), bc);', '                        rhs.write_bc(rhs_slot.to_out(), bc);\n                        bc.write_instr::<InstrArrayIndex>(span, (array, index, temp_slot.to_out()));', 'AssignModifyLhs::write_bc'),
    ('bcorder', AMOD, '                bc.write_load_local(span, slot, lhs_rhs.get::<0>().to_out());\n                rhs.write_bc(lhs_rhs.get::<1>().to_out(), bc);', '                rhs.write_bc(lhs_rhs.get::<1>().to_out(), bc);\n                bc.write_load_local(span, slot, lhs_rhs.get::<0>().to_out());', 'AssignModifyLhs::write_bc'),
    ('bcorder', AMOD, '            AssignOp::Percent => bc.write_instr::<InstrPercent>(span, arg),', '            AssignOp::Percent => {}', 'write_bc'),
    ('bcargs', BCCALL, '            write_expr_opt(&self.args, bc, |args, bc| {\n                write_expr_opt(&self.kwargs, bc, |kwargs, bc| {', '            write_expr_opt(&self.kwargs, bc, |kwargs, bc| {\n                write_expr_opt(&self.args, bc, |args, bc| {', 'ArgsCompiledValue::write_bc'),
    ('bcargs', BCCALL, '                        args,\n                        kwargs,\n                    };', '                        args: kwargs,\n                        kwargs: args,\n                    };', 'ArgsCompiledValue::write_bc'),
    ('fsdepth', LEX, 'state.paren_depth = state.paren_depth.saturating_sub(1);', 'state.paren_depth -= 1;', 'track_fstring_paren'),
    ('fsdepth', LEX, 'state.bracket_depth = state.bracket_depth.saturating_sub(1);', 'state.bracket_depth -= 1;', 'track_fstring_bracket'),
    ('int', BIG, '        Ok(Some(NumRef::Int(StarlarkIntRef::Big(self))) == other.unpack_num())', '        match other.unpack_num() {\n            Some(NumRef::Float(_)) => Ok(false),\n            other => Ok(Some(NumRef::Int(StarlarkIntRef::Big(self))) == other),\n        }', 'C09.value.big.equals'),
    ('int', BIG, '        Ok(Some(NumRef::Int(StarlarkIntRef::Big(self))) == other.unpack_num())', '        Ok(other.unpack_num() == Some(NumRef::Int(StarlarkIntRef::Big(self))))', 'EQUIVALENT'),
    ('int', BIG, '        Ok(Some(NumRef::Int(StarlarkIntRef::Big(self))) == other.unpack_num())', '        match other.unpack_num() {\n            Some(NumRef::Float(f)) if f.0 >= i32::MIN as f64 && f.0 <= -(i32::MIN as f64) => {\n                Ok(false)\n            }\n            other => Ok(Some(NumRef::Int(StarlarkIntRef::Big(self))) == other),\n        }', 'C09.value.big.equals'),   # seed C09c/m2 verbatim: needs rule A15 (unary float negation)
    ('int', BIG, '            Some(other) => Ok(NumRef::Int(StarlarkIntRef::Big(self)).cmp(&other)),', '            Some(other) => Ok(other.cmp(&NumRef::Int(StarlarkIntRef::Big(self)))),', 'C09.value.big.compare'),
    ('slots', EVL, '        let value_captured = value_captured_get(value_captured);\n        value_captured\n            .ok_or_else(|| self.local_var_referenced_before_assignment(LocalSlotId(slot.0)))', '        Ok(value_captured_get(value_captured).expect("captured slot is assigned"))', 'get_slot_local_captured'),
    ('slots', EVL, '        let value_captured = self.get_slot_local(self.current_frame, LocalSlotId(slot.0))?;', '        let value_captured = self.get_slot_local(self.current_frame, LocalSlotId(slot.0 + 1))?;', 'get_slot_local_captured'),
    ('vecmap', VECMAP, '        let ((key, value), hash) = self.buckets.remove(index);', '        let ((key, value), hash) = self.buckets.remove(0);', 'C11.vecmap.remove'),
    ('vecmap', VECMAP, '        let ((key, value), hash) = self.buckets.pop()?;\n        Some((Hashed::new_unchecked(hash, key), value))', '        let ((key, value), hash) = self.buckets.remove(0);\n        Some((Hashed::new_unchecked(hash, key), value))', 'pop'),
    ('vecmap', VECMAP, '        self.buckets.push((key.into_key(), value), hash);', '        self.buckets.push((key.into_key(), value), StarlarkHashValue(0));', 'C11.vecmap.insert_appends'),
    ('limits', EVALRS, '        let res = self.with_call_stack(Value::new_none(), None, |this| {\n            function.invoke(&params, this)\n        });', '        self.call_stack.push(Value::new_none(), None)?;\n        let res = function.invoke(&params, self);\n        if res.is_ok() {\n            self.call_stack.pop();\n        }', 'eval_function'),
    ('bcstop', BCW, '        for depth in (0..self.for_loops.len()).rev() {\n            let iter = self.for_loops[depth].iter;\n            self.write_instr::<InstrIterStop>(span, iter);\n        }', '        if let Some(for_loop) = self.for_loops.last() {\n            let iter = for_loop.iter;\n            self.write_instr::<InstrIterStop>(span, iter);\n        }', 'C12.bc.iter_stop.all_open_loops'),
    ('bcstop', BCW, '        for depth in (0..self.for_loops.len()).rev() {', '        for depth in (1..self.for_loops.len()).rev() {', 'write_iter_stop'),
    ('int', 'starlark/src/values/types/int/pointer_i32.rs', 'Ok(heap.alloc(StarlarkInt::from(&self.to_bigint() | b.get())))', 'Ok(heap.alloc(StarlarkInt::from(&self.to_bigint() ^ b.get())))', 'C10.value.small.bit_or'),
    ('limits', EVALRS, '        let names = named.map(|(s, _)| (Symbol::new(s), self.heap().alloc_str(s)));', '        self.infrequent_instr_check_counter = 0;\n        let names = named.map(|(s, _)| (Symbol::new(s), self.heap().alloc_str(s)));', 'C15.eval_function.ticks_accumulate'),
    ('calls', INSTR, '        eval.with_call_stack(self.to_value(), Some(location), |eval| {\n            self.invoke(args, eval)\n        })', '        self.invoke(args, eval)', 'bc_invoke'),
    ('calls', 'starlark/src/values/layout/value.rs', '        eval.with_call_stack(self, location, |eval| {\n            self.get_ref_full().invoke(args, eval)\n        })', '        self.get_ref_full().invoke(args, eval)', 'invoke_with_loc'),
    ('strindex', STRT, 'let ind = CharIndex(i.unsigned_abs() as usize);', 'let ind = CharIndex((-i) as usize);', 'at'),
    ('strindex', STRT, 'Ok(heap.alloc(self.as_bytes()[(len_chars - ind).0] as char))', 'Ok(heap.alloc(self.as_bytes()[len_chars.0] as char))', 'at'),
    ('strindex', STRT, 'if ind > len_chars {', 'if ind >= len_chars {', 'C01.str.at.ok_iff'),
    ('seqindex', TUPV, '        for x in self.content() {\n            if x.equals(other)? {\n                return Ok(true);', '        for x in self.content() {\n            if !x.equals(other)? {\n                return Ok(true);', 'C01.tuple.is_in'),
    ('seqindex', LISTV, '        for x in self.0.content().iter() {\n            if x.equals(other)? {\n                return Ok(true);\n            }\n        }\n        Ok(false)', '        for x in self.0.content().iter() {\n            if x.equals(other)? {\n                return Ok(true);\n            }\n        }\n        Ok(self.0.content().len() > 3)', 'C01.list.is_in.false'),
    ('seqindex', TUPV, '        let i = convert_index(index, self.len() as i32)? as usize;\n        Ok(self.content()[i].to_value())', '        let i = convert_index(index, self.len() as i32)? as usize;\n        Ok(self.content()[i / 2].to_value())', 'C01.tuple.at.elem'),
    ('seqindex', TUPV, '    fn length(&self) -> crate::Result<i32> {\n        Ok(self.len() as i32)', '    fn length(&self) -> crate::Result<i32> {\n        Ok(self.len() as i32 - 1)', 'length'),
    ('seqindex', TUPV, '    fn to_bool(&self) -> bool {\n        self.len() != 0', '    fn to_bool(&self) -> bool {\n        self.len() > 1', 'C01.tuple.to_bool'),
    ('seqindex', LISTV, '    fn to_bool(&self) -> bool {\n        !self.0.content().is_empty()', '    fn to_bool(&self) -> bool {\n        self.0.content().len() > 1', 'C01.list.to_bool'),
    ('seqindex', LISTV, '        let i = convert_index(index, self.0.content().len() as i32)? as usize;\n        Ok(self.0.content()[i])', '        let i = convert_index(index, self.0.content().len() as i32 - 1)? as usize;\n        Ok(self.0.content()[i])', 'C01.list.at'),
    ('seqindex', LISTV, '        let i = convert_index(index, self.0.content().len() as i32)? as usize;\n        Ok(self.0.content()[i])', '        let i = convert_index(index, self.0.content().len() as i32)? as usize;\n        Ok(self.0.content()[self.0.content().len() - 1 - i])', 'C01.list.at.elem'),
    ('seqindex', LISTV, '    fn length(&self) -> crate::Result<i32> {\n        Ok(self.0.content().len() as i32)', '    fn length(&self) -> crate::Result<i32> {\n        Ok(self.0.content().len() as i32 + 1)', 'length'),
    ('strindex', STRT, 'Ok(fast_string::len(self).0 as i32)', 'Ok(self.len() as i32)', 'C01.str.length'),
    ('strindex', STRT, 'Ok(heap.alloc(fast_string::at(self, len_chars - ind).unwrap()))', 'Ok(heap.alloc(fast_string::at(self, CharIndex(ind.0 - 1)).unwrap()))', 'C01.str.at.char'),
    ('strindex', STRT, 'Ok(heap.alloc(self.as_bytes()[(len_chars - ind).0] as char))', 'Ok(heap.alloc(self.as_bytes()[ind.0 - 1] as char))', 'C01.str.at.char'),
    ('strindex', STRT, 'match fast_string::at(self, CharIndex(i as usize)) {', 'match fast_string::at(self, CharIndex((i / 2) as usize)) {', 'C01.str.at'),
    ('smallmap', SMAP, '            // but `clear` is rare operation anyway.\n            index.clear();', '            // but `clear` is rare operation anyway.\n            let _ = index;', 'C11.smallmap.clear'),
    ('smallmap', SMAP, '        if n <= NO_INDEX_THRESHOLD {\n            SmallMap {', '        if n <= NO_INDEX_THRESHOLD + 1 {\n            SmallMap {', 'C11.smallmap.with_capacity'),
    ('smallmap', SMAP, '        if self.entries.len() <= NO_INDEX_THRESHOLD {\n            self.index = None;', '        if self.entries.len() <= NO_INDEX_THRESHOLD + 1 {\n            self.index = None;', 'C11.smallmap.maybe_drop_index'),
    ('prec', PRD, 'let e = self.parse_expr(5)?;', 'let e = self.parse_expr(6)?;', 'parse_expr'),
    ('prec', PRD, '                let (_, left_bp, right_bp) = (BinOp::NotIn, 5u8, 6u8);', '                let (_, left_bp, right_bp) = (BinOp::NotIn, 5u8, 5u8);', 'continue_infix'),
    ('prec', PRD, '                self.consume(&Token::In);\n                let rhs = self.parse_expr(right_bp)?;\n                let r = rhs.span.end();', '                self.consume(&Token::In);\n                let rhs = self.parse_expr(right_bp)?;\n                let r = lhs.span.end();', 'parse_expr'),
    ('limits', CCS, 'Some(self.stack[..self.count].last().as_ref()?.to_frame())', 'Some(self.stack.last().as_ref()?.to_frame())', 'C07.stack.top_frame'),
    ('numcmp', NUM, '        if let (NumRef::Int(a), NumRef::Int(b)) = (self, other) {\n            a.cmp(b)', '        if let (NumRef::Int(a), NumRef::Int(b)) = (self, other) {\n            b.cmp(a)', 'C09.cmp.num_cmp.int_int'),
]


def run_one(idx, m, known):
    unit, rel, old, new, expect = m
    src = open(os.path.join(REPO, rel)).read()
    if src.count(old) < 1:
        return idx, 'anchor-lost', 'pattern not found in %s' % rel
    src2 = src.replace(old, new, 1)
    try:
        r = Extractor(REPO, {rel: src2}).run(os.path.join(HERE, 'contracts', unit + '.vspec'))
    except Undecided as ex:
        return idx, 'undecided', str(ex)
    p = os.path.join(WORK, '%s_m%d.rs' % (unit, idx))
    open(p, 'w').write(r.text)
    out = subprocess.run(['verus', os.path.basename(p), '--error-format=json'], cwd=WORK, capture_output=True, text=True)
    fails = []
    other = []
    for l in out.stderr.splitlines():
        try:
            d = json.loads(l)
        except Exception:
            continue
        if d.get('level') != 'error' or not d.get('spans'):
            continue
        msg = d['message']
        if msg.startswith('aborting'):
            continue
        sp = [s for s in d['spans'] if s['is_primary']]
        line = sp[0]['line_start'] if sp else None
        fn = r.fn_at(line) if line else None
        lab = r.label_at(line) if line else None
        if any(k in msg for k in ('not satisfied', 'overflow', 'assertion failed', 'invariant', 'precondition not met', 'index in bounds', 'callee.requires')) or ('post-condition of closure' in msg and lab):
            fails.append('%s|%s' % (lab, fn['fn'] if fn else None))
        else:
            other.append(msg)
    fails = [f for f in fails if f.split('|')[0] not in known]
    if other and not fails:
        return idx, 'undecided', other[0][:200]
    if not fails:
        return idx, 'survived', 'no obligation failed'
    if expect and expect != 'EQUIVALENT' and not any(expect in f for f in fails):
        return idx, 'killed-elsewhere', ';'.join(fails[:3])
    return idx, 'killed', ';'.join(fails[:3])


def main(argv):
    units = set(argv) if argv else None
    os.makedirs(WORK, exist_ok=True)
    known = set()
    kf = os.path.join(HERE, 'known_findings.txt')
    if os.path.exists(kf):
        import re
        for ln in open(kf):
            if ln.startswith('finding:'):
                m = re.search(r'obligation=(\S+)', ln)
                if m:
                    known.add(m.group(1))
    todo = [(i, m) for i, m in enumerate(MUTANTS) if units is None or m[0] in units]
    res = []
    with cf.ThreadPoolExecutor(max_workers=8) as pool:
        for r in pool.map(lambda im: run_one(im[0], im[1], known), todo):
            res.append(r)
    bad = 0
    for idx, status, detail in res:
        m = MUTANTS[idx]
        # a mutant with expectation 'EQUIVALENT' is a NEGATIVE control: it preserves the behaviour and must not be flagged
        ok = (status == 'survived') if m[4] == 'EQUIVALENT' else status in ('killed', 'killed-elsewhere')
        if not ok:
            bad += 1
        print('%-16s %-8s %s :: %r -> %r   %s' % (status, m[0], m[1].split('/')[-1], m[2][:40], m[3][:40], detail[:120]))
    print('selftest: %d mutants, %d killed, %d not killed' % (len(res), len(res) - bad, bad))   # negative controls count as killed when they survive
    json.dump([{'mutant': list(MUTANTS[i][:4]), 'status': s, 'detail': d} for i, s, d in res],
              open(os.path.join(HERE, '.work', 'selftest.json'), 'w'), indent=1)
    return 0 if bad == 0 else 3
