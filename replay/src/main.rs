//! Replay helper: re-executes counterexamples / witnesses on the real library (path dependency on /repo).
//!   verif_replay eval <starlark source>      -> prints `OK <repr>` or `ERR <message>`
//!   verif_replay evalfile <path>             -> one expression per line, prints one result line per input line
//!   verif_replay callstack-empty             -> Evaluator::call_stack() on an idle evaluator
use starlark::environment::{Globals, Module};
use starlark::eval::Evaluator;
use starlark::syntax::{AstModule, Dialect};

fn eval_one(src: &str) -> String {
    let r = std::panic::catch_unwind(|| {
        Module::with_temp_heap(|module| {
            let ast = match AstModule::parse("replay.star", src.to_owned(), &Dialect::Extended) {
                Ok(a) => a,
                Err(e) => return Ok::<String, anyhow::Error>(format!("ERR parse: {}", first_line(&e.to_string()))),
            };
            let globals = Globals::extended_internal();
            let mut eval = Evaluator::new(&module);
            match eval.eval_module(ast, &globals) {
                Ok(v) => Ok(format!("OK {}", v.to_repr())),
                Err(e) => Ok(format!("ERR {}", first_line(&format!("{:#}", e.kind())))),
            }
        })
    });
    match r {
        Ok(Ok(s)) => s,
        Ok(Err(e)) => format!("ERR {}", e),
        Err(_) => "PANIC".to_owned(),
    }
}

fn first_line(s: &str) -> String {
    s.lines().next().unwrap_or("").to_owned()
}

fn main() {
    let args: Vec<String> = std::env::args().collect();
    match args.get(1).map(|s| s.as_str()) {
        Some("eval") => println!("{}", eval_one(&args[2])),
        Some("evalfile") => {
            let text = std::fs::read_to_string(&args[2]).unwrap();
            for line in text.lines() {
                println!("{}", eval_one(line));
            }
        }
        Some("parsefile") => {
            // one source per line -> "OK <Display of the parsed module>" | "ERR"
            let text = std::fs::read_to_string(&args[2]).unwrap();
            for line in text.lines() {
                match AstModule::parse("replay.star", line.to_owned(), &Dialect::Extended) {
                    Ok(m) => println!("OK {}", format!("{}", m.statement().node).trim().replace('\n', " ")),
                    Err(_) => println!("ERR"),
                }
            }
        }
        Some("ticks") => {
            // verif_replay ticks <src> [budget] -> "OK ticks=<n>" | "ERR <msg> ticks=<n>"
            let src = args[2].clone();
            let budget: Option<u64> = args.get(3).map(|s| s.parse().unwrap());
            Module::with_temp_heap(|module| {
                let ast = AstModule::parse("replay.star", src, &Dialect::Extended).unwrap();
                let globals = Globals::extended_internal();
                let mut eval = Evaluator::new(&module);
                if let Some(b) = budget {
                    eval.set_max_tick_count(b).unwrap();
                }
                match eval.eval_module(ast, &globals) {
                    Ok(_) => println!("OK ticks={}", eval.get_total_tick_count()),
                    Err(e) => println!("ERR {} ticks={}", first_line(&format!("{:#}", e.kind())), eval.get_total_tick_count()),
                }
                Ok::<(), anyhow::Error>(())
            })
            .unwrap();
        }
        Some("callstack-empty") => {
            let r = std::panic::catch_unwind(|| {
                Module::with_temp_heap(|module| {
                    let eval = Evaluator::new(&module);
                    let n = eval.call_stack_count();
                    let cs = eval.call_stack();
                    Ok::<String, anyhow::Error>(format!("OK count={} frames={}", n, cs.frames.len()))
                })
            });
            match r {
                Ok(Ok(s)) => println!("{}", s),
                _ => println!("PANIC Evaluator::call_stack() on an empty call stack"),
            }
        }
        _ => {
            eprintln!("usage: verif_replay eval <src> | evalfile <path> | callstack-empty");
            std::process::exit(2);
        }
    }
}
