use starlark::environment::{Globals, Module};
use starlark::eval::Evaluator;
fn main() {
    Module::with_temp_heap(|module| {
        let eval = Evaluator::new(&module);
        println!("count={}", eval.call_stack_count());
        let cs = eval.call_stack();
        println!("frames={}", cs.frames.len());
        Ok::<(), anyhow::Error>(())
    }).unwrap();
    let _ = Globals::standard();
}
