//! Replay helper: re-executes counterexamples / witnesses on the real library (path dependency on /repo).
//!   verif_replay eval <starlark source>      -> prints `OK <repr>` or `ERR <message>`
//!   verif_replay evalfile <path>             -> one expression per line, prints one result line per input line
//!   verif_replay callstack-empty             -> Evaluator::call_stack() on an idle evaluator
use starlark::environment::{Globals, Module};
use starlark::eval::Evaluator;
use starlark::syntax::{AstModule, Dialect};

fn eval_one(src: &str) -> String {
    let r = std::panic::catch_unwind(|| {
        Module::with_temp_heap(|module| {
            let ast = match AstModule::parse("replay.star", src.to_owned(), &Dialect::Extended) {
                Ok(a) => a,
                Err(e) => return Ok::<String, anyhow::Error>(format!("ERR parse: {}", first_line(&e.to_string()))),
            };
            let globals = Globals::extended_internal();
            let mut eval = Evaluator::new(&module);
            match eval.eval_module(ast, &globals) {
                Ok(v) => Ok(format!("OK {}", v.to_repr())),
                Err(e) => Ok(format!("ERR {}", first_line(&format!("{:#}", e.kind())))),
            }
        })
    });
    match r {
        Ok(Ok(s)) => s,
        Ok(Err(e)) => format!("ERR {}", e),
        Err(_) => "PANIC".to_owned(),
    }
}


/// C05 witness search: every node's span lies inside its parent's span (statements, expressions, def / lambda parameters
/// with their name, type annotation and default value).
fn span_violations(src: &str) -> Result<Vec<String>, String> {
    use starlark_syntax::codemap::Span;
    use starlark_syntax::syntax::ast::*;
    use starlark_syntax::syntax::uniplate::Visit;
    let m = AstModule::parse("span.star", src.to_owned(), &Dialect::AllOptionsInternal).map_err(|e| first_line(&e.to_string()))?;
    fn inside(c: Span, p: Span) -> bool { p.begin().get() <= c.begin().get() && c.end().get() <= p.end().get() }
    fn params(ps: &[AstParameter], parent: Span, out: &mut Vec<String>) {
        for p in ps {
            if !inside(p.span, parent) { out.push(format!("parameter {:?} outside parent {:?}", p.span, parent)); }
            let (id, ty, def) = match &p.node {
                ParameterP::Normal(n, t, d) => (Some(n.span), t.as_ref().map(|t| t.span), d.as_ref().map(|d| d.span)),
                ParameterP::Args(n, t) | ParameterP::KwArgs(n, t) => (Some(n.span), t.as_ref().map(|t| t.span), None),
                _ => (None, None, None),
            };
            for (what, c) in [("name", id), ("type", ty), ("default", def)] {
                if let Some(c) = c {
                    if !inside(c, p.span) { out.push(format!("{} {:?} outside its parameter {:?}", what, c, p.span)); }
                }
            }
        }
    }
    fn walk(v: Visit<AstNoPayload>, out: &mut Vec<String>) {
        let me = match &v { Visit::Stmt(s) => s.span, Visit::Expr(e) => e.span };
        match &v {
            Visit::Stmt(s) => if let StmtP::Def(d) = &s.node { params(&d.params, me, out); },
            Visit::Expr(e) => if let ExprP::Lambda(l) = &e.node { params(&l.params, me, out); },
        }
        v.visit_children(|c| {
            let cs = match &c { Visit::Stmt(s) => s.span, Visit::Expr(e) => e.span };
            if !inside(cs, me) { out.push(format!("child {:?} outside parent {:?}", cs, me)); }
            walk(c, out);
        });
    }
    let mut out = Vec::new();
    walk(Visit::Stmt(m.statement()), &mut out);
    Ok(out)
}

/// Deterministic SmallMap scenarios against a Vec model (witness search for C11 obligations).
fn map_check(map: &starlark_map::small_map::SmallMap<u32, u32>, model: &Vec<(u32, u32)>, what: &str) -> Result<(), String> {
    if map.len() != model.len() {
        return Err(format!("{what}: len {} vs model {}", map.len(), model.len()));
    }
    for (i, (k, v)) in model.iter().enumerate() {
        if map.get_index_of(k) != Some(i) {
            return Err(format!("{what}: get_index_of({k}) = {:?}, model {i}", map.get_index_of(k)));
        }
        if map.get(k) != Some(v) {
            return Err(format!("{what}: get({k}) = {:?}, model {v}", map.get(k)));
        }
        if map.get_index(i) != Some((k, v)) {
            return Err(format!("{what}: get_index({i}) differs"));
        }
    }
    let it: Vec<(u32, u32)> = map.iter().map(|(k, v)| (*k, *v)).collect();
    if &it != model {
        return Err(format!("{what}: iteration order differs"));
    }
    if map.get(&1_000_000).is_some() {
        return Err(format!("{what}: absent key found"));
    }
    Ok(())
}

fn map_scenarios() -> Result<usize, String> {
    use starlark_map::small_map::SmallMap;
    let mut count = 0;
    for n in [0usize, 1, 2, 5, 15, 16, 17, 18, 31, 32, 33, 34, 40] {
        let fresh = |n: usize| {
            let mut m = SmallMap::new();
            let mut model = Vec::new();
            for k in 0..n as u32 {
                m.insert(k * 7 + 1, k);
                model.push((k * 7 + 1, k));
            }
            (m, model)
        };
        // remove each position by key, then by index
        for pos in 0..n {
            let (mut m, mut model) = fresh(n);
            let k = model[pos].0;
            let got = m.shift_remove(&k);
            let want = Some(model.remove(pos).1);
            if got != want {
                return Err(format!("n={n} shift_remove(pos {pos}) returned {:?}, model {:?}", got, want));
            }
            map_check(&m, &model, &format!("n={n} after shift_remove(pos {pos})"))?;
            m.insert(999, 5);
            model.push((999, 5));
            map_check(&m, &model, &format!("n={n} after shift_remove(pos {pos}) + insert"))?;
            let (mut m, mut model) = fresh(n);
            m.shift_remove_index(pos);
            model.remove(pos);
            map_check(&m, &model, &format!("n={n} after shift_remove_index({pos})"))?;
            count += 3;
        }
        // clear and reuse
        let (mut m, mut model) = fresh(n);
        m.clear();
        model.clear();
        map_check(&m, &model, &format!("n={n} after clear"))?;
        for k in 0..n as u32 {
            if m.insert(k * 7 + 1, k + 100).is_some() {
                return Err(format!("n={n} insert after clear reported an old value"));
            }
            model.push((k * 7 + 1, k + 100));
        }
        map_check(&m, &model, &format!("n={n} after clear + reinsert"))?;
        // pop, reverse, retain, sort
        let (mut m, mut model) = fresh(n);
        if m.pop() != model.pop() {
            return Err(format!("n={n} pop differs"));
        }
        map_check(&m, &model, &format!("n={n} after pop"))?;
        m.reverse();
        model.reverse();
        map_check(&m, &model, &format!("n={n} after reverse"))?;
        m.retain(|k, _| k % 3 != 0);
        model.retain(|(k, _)| k % 3 != 0);
        map_check(&m, &model, &format!("n={n} after retain"))?;
        m.sort_keys();
        model.sort();
        map_check(&m, &model, &format!("n={n} after sort_keys"))?;
        m.maybe_drop_index();
        map_check(&m, &model, &format!("n={n} after maybe_drop_index"))?;
        // reserve across / below / above the index threshold, then keep using the map
        for add in [0usize, 1, 10, 17, 40] {
            let (mut m, mut model) = fresh(n);
            m.reserve(add);
            map_check(&m, &model, &format!("n={n} after reserve({add})"))?;
            m.insert(5000, 1);
            model.push((5000, 1));
            map_check(&m, &model, &format!("n={n} after reserve({add}) + insert"))?;
            count += 2;
        }
        // a map that keeps its index below the threshold (grown, then shrunk), then retain / removal
        let (mut m, mut model) = fresh(n.max(20));
        while m.len() > 6 {
            m.pop();
            model.pop();
        }
        m.retain(|k, _| k % 2 == 0);
        model.retain(|(k, _)| k % 2 == 0);
        map_check(&m, &model, &format!("n={n} shrunk below the threshold, after retain"))?;
        count += 8;
    }
    Ok(count)
}

#[starlark::starlark_module]
fn probe_globals(builder: &mut starlark::environment::GlobalsBuilder) {
    /// name of Evaluator::call_stack_top_frame() as seen from inside a native function
    fn top_frame_name(eval: &mut Evaluator) -> anyhow::Result<String> {
        Ok(eval
            .call_stack_top_frame()
            .map_or("<none>".to_owned(), |f| f.name))
    }
    /// names of the frames of Evaluator::call_stack(), outermost first
    fn stack_names(eval: &mut Evaluator) -> anyhow::Result<String> {
        Ok(eval
            .call_stack()
            .into_frames()
            .into_iter()
            .map(|f| f.name)
            .collect::<Vec<_>>()
            .join(">"))
    }
}

fn first_line(s: &str) -> String {
    s.lines().next().unwrap_or("").to_owned()
}

fn main() {
    let args: Vec<String> = std::env::args().collect();
    match args.get(1).map(|s| s.as_str()) {
        Some("eval") => println!("{}", eval_one(&args[2])),
        Some("evalfile") => {
            let text = std::fs::read_to_string(&args[2]).unwrap();
            for line in text.lines() {
                println!("{}", eval_one(line));
            }
        }
        Some("parsefile") => {
            // one source per line -> "OK <Display of the parsed module>" | "ERR"
            let text = std::fs::read_to_string(&args[2]).unwrap();
            for line in text.lines() {
                match AstModule::parse("replay.star", line.to_owned(), &Dialect::Extended) {
                    Ok(m) => println!("OK {}", format!("{}", m.statement().node).trim().replace('\n', " ")),
                    Err(_) => println!("ERR"),
                }
            }
        }
        Some("evalseq") => {
            // verif_replay evalseq <src1> <src2> ...: evaluate the sources one after the other in ONE module
            // (a fresh Evaluator each, as an embedder re-using a module would); prints one result per source
            Module::with_temp_heap(|module| {
                let globals = Globals::extended_internal();
                for (i, src) in args[2..].iter().enumerate() {
                    let r = std::panic::catch_unwind(std::panic::AssertUnwindSafe(|| {
                        let ast = AstModule::parse(&format!("step{i}.star"), src.clone(), &Dialect::Extended).unwrap();
                        let mut eval = Evaluator::new(&module);
                        match eval.eval_module(ast, &globals) {
                            Ok(v) => format!("OK {}", v.to_repr()),
                            Err(e) => format!("ERR {}", first_line(&format!("{:#}", e.kind()))),
                        }
                    }));
                    println!("{}", r.unwrap_or_else(|_| "PANIC".to_owned()));
                }
                Ok::<(), anyhow::Error>(())
            })
            .unwrap();
        }
        Some("topframe") => {
            // the top frame reported by the evaluator from inside nested calls
            let src = "def g():\n    return (top_frame_name(), stack_names())\ndef f():\n    return g()\nf()\n";
            Module::with_temp_heap(|module| {
                let globals = starlark::environment::GlobalsBuilder::standard().with(probe_globals).build();
                let ast = AstModule::parse("replay.star", src.to_owned(), &Dialect::Extended).unwrap();
                let mut eval = Evaluator::new(&module);
                match eval.eval_module(ast, &globals) {
                    Ok(v) => println!("OK {}", v.to_repr()),
                    Err(e) => println!("ERR {}", first_line(&format!("{:#}", e.kind()))),
                }
                Ok::<(), anyhow::Error>(())
            })
            .unwrap();
        }
        Some("mapops") => match std::panic::catch_unwind(map_scenarios) {
            Ok(Ok(n)) => println!("OK {} scenarios agree with the list model", n),
            Ok(Err(e)) => println!("DIFF {}", e),
            Err(_) => println!("PANIC in a SmallMap scenario (see stderr for the location)"),
        },
        Some("ticks") => {
            // verif_replay ticks <src> [budget] -> "OK ticks=<n>" | "ERR <msg> ticks=<n>"
            let src = args[2].clone();
            let budget: Option<u64> = args.get(3).map(|s| s.parse().unwrap());
            Module::with_temp_heap(|module| {
                let ast = AstModule::parse("replay.star", src, &Dialect::Extended).unwrap();
                let globals = Globals::extended_internal();
                let mut eval = Evaluator::new(&module);
                if let Some(b) = budget {
                    eval.set_max_tick_count(b).unwrap();
                }
                match eval.eval_module(ast, &globals) {
                    Ok(_) => println!("OK ticks={}", eval.get_total_tick_count()),
                    Err(e) => println!("ERR {} ticks={}", first_line(&format!("{:#}", e.kind())), eval.get_total_tick_count()),
                }
                Ok::<(), anyhow::Error>(())
            })
            .unwrap();
        }
        Some("callstack-empty") => {
            let r = std::panic::catch_unwind(|| {
                Module::with_temp_heap(|module| {
                    let eval = Evaluator::new(&module);
                    let n = eval.call_stack_count();
                    let cs = eval.call_stack();
                    Ok::<String, anyhow::Error>(format!("OK count={} frames={}", n, cs.frames.len()))
                })
            });
            match r {
                Ok(Ok(s)) => println!("{}", s),
                _ => println!("PANIC Evaluator::call_stack() on an empty call stack"),
            }
        }
        Some("spanfile") => {
            // one source per line ("\\n" stands for a newline): "OK" | "SPAN <first violation>" | "ERR <parse error>"
            let text = std::fs::read_to_string(&args[2]).unwrap();
            for line in text.lines() {
                let src = line.replace("\\n", "\n");
                match std::panic::catch_unwind(|| span_violations(&src)) {
                    Ok(Ok(v)) if v.is_empty() => println!("OK"),
                    Ok(Ok(v)) => println!("SPAN {}", v[0]),
                    Ok(Err(e)) => println!("ERR {}", e),
                    Err(_) => println!("PANIC"),
                }
            }
        }
        Some("frozen-call") => {
            // verif_replay frozen-call <library source> <caller source>: the library module is evaluated and FROZEN, the
            // caller `load`s every name from it, so its call sites are compiled against frozen defs.
            let lib_src = args[2].clone();
            let call_src = args[3].clone();
            let r = std::panic::catch_unwind(|| {
                let globals = Globals::extended_internal();
                let frozen = Module::with_temp_heap(|lib| {
                    let ast = AstModule::parse("lib.star", lib_src.clone(), &Dialect::Extended).unwrap();
                    {
                        let mut eval = Evaluator::new(&lib);
                        eval.eval_module(ast, &globals).unwrap();
                    }
                    lib.freeze()
                }).unwrap();
                Module::with_temp_heap(|m| {
                    let mut modules = std::collections::HashMap::new();
                    modules.insert("lib.star", &frozen);
                    let mut loader = starlark::eval::ReturnFileLoader { modules: &modules };
                    let ast = AstModule::parse("caller.star", call_src.clone(), &Dialect::Extended).unwrap();
                    let mut eval = Evaluator::new(&m);
                    eval.set_loader(&mut loader);
                    let r = match eval.eval_module(ast, &globals) {
                        Ok(v) => format!("OK {}", v.to_repr()),
                        Err(e) => format!("ERR {}", first_line(&format!("{:#}", e.kind()))),
                    };
                    Ok::<String, anyhow::Error>(r)
                })
            });
            match r {
                Ok(Ok(s)) => println!("{}", s),
                Ok(Err(e)) => println!("ERR {}", e),
                Err(_) => println!("PANIC"),
            }
        }
        Some("module-depth") => {
            // eval_module must hand the call stack back empty on every exit: Ok, a run-time error, a stack overflow,
            // a tick-limit error and a cancellation noticed only by the end-of-module check.
            let r = std::panic::catch_unwind(|| {
                Module::with_temp_heap(|module| {
                    let globals = Globals::extended_internal();
                    let cancelled = std::rc::Rc::new(std::cell::Cell::new(false));
                    let mut eval = Evaluator::new(&module);
                    eval.set_max_callstack_size(10).unwrap();
                    let c = cancelled.clone();
                    eval.set_check_cancelled(Box::new(move || c.get()));
                    let mut out = Vec::new();
                    let progs: &[(&str, &str, bool)] = &[
                        ("ok", "x = 1", false),
                        ("runtime-error", "def f():\n    return 1 // 0\nf()", false),
                        ("stack-overflow", "def g(n):\n    return g(n + 1)\ng(0)", false),
                        ("cancel-at-end", "y = 2", true),
                        ("cancel-in-def", "def h():\n    return 3\nh()", true),
                    ];
                    for (name, src, cancel) in progs {
                        cancelled.set(*cancel);
                        let ast = AstModule::parse("m.star", (*src).to_owned(), &Dialect::Extended).unwrap();
                        let res = eval.eval_module(ast, &globals);
                        cancelled.set(false);
                        out.push(format!("{}:{}:depth={}", name, if res.is_ok() { "ok" } else { "err" }, eval.call_stack_count()));
                    }
                    Ok::<String, anyhow::Error>(out.join(" "))
                })
            });
            match r {
                Ok(Ok(s)) => println!("{} {}", if s.split(' ').all(|p| p.ends_with("depth=0")) { "OK" } else { "LEAK" }, s),
                _ => println!("PANIC eval_module sequence"),
            }
        }
        _ => {
            eprintln!("usage: verif_replay eval <src> | evalfile <path> | callstack-empty | module-depth");
            std::process::exit(2);
        }
    }
}
