"""Engine K: run Kani proof harnesses / function contracts that live in /repo behind cargo feature `verif_kani`.

A harness is `complete` (loop-free over full-domain symbolic inputs: the CBMC run is a proof) or `bounded`
(explicit unwind / size bound: a stand-in, reported separately and never counted as proved).
"""
import os
import re
import struct
import subprocess
import time


def _env():
    env = dict(os.environ)
    env['CARGO_NET_OFFLINE'] = 'true'
    return env


BASE = ['cargo', 'kani', '--features', 'verif_kani', '-Z', 'function-contracts', '--output-format', 'terse']


def _run(cmd, cwd, timeout):
    t0 = time.time()
    try:
        p = subprocess.run(cmd, cwd=cwd, capture_output=True, text=True, env=_env(), timeout=timeout)
        return p.returncode, p.stdout + '\n' + p.stderr, time.time() - t0
    except subprocess.TimeoutExpired as ex:
        subprocess.run(['pkill', '-x', 'cbmc'])
        out = ex.stdout.decode('utf-8', 'replace') if isinstance(ex.stdout, bytes) else (ex.stdout or '')
        return 124, out + '\nTIMEOUT after %ss' % timeout, time.time() - t0


def _parse_playback(text):
    """concrete playback `print` output -> list of {'comment': str, 'bytes': [..]} for the FIRST assertion test."""
    tests = re.findall(r'/// Check for `([a-z_]+)`: "(.*?)"\s*\n\s*#\[test\]\s*\n\s*fn \w+\(\) \{\s*\n\s*let concrete_vals: Vec<Vec<u8>> = vec!\[\s*\n(.*?)\n\s*\];', text, re.S)
    out = []
    for kind, msg, body in tests:
        vals = []
        cm = None
        for ln in body.split('\n'):
            ln = ln.strip()
            if ln.startswith('//'):
                cm = ln[2:].strip()
            elif ln.startswith('vec!['):
                bs = [int(x) for x in re.findall(r'\d+', ln)]
                vals.append({'comment': cm, 'bytes': bs})
                cm = None
        out.append({'kind': kind, 'check': msg, 'values': vals})
    return out


def decode(val, ty):
    b = bytes(val['bytes'])
    fmt = {'i32': '<i', 'u32': '<I', 'i64': '<q', 'u64': '<Q', 'f64': '<d', 'u8': '<B', 'i8': '<b', 'usize': '<Q',
           'isize': '<q', 'bool': '<B', 'u16': '<H'}[ty]
    return struct.unpack(fmt, b[:struct.calcsize(fmt)])[0]


def run(prop, harnesses, repo, log):
    res = {'cmds': [], 'undecided': [], 'harnesses': [], 'assumptions': []}
    by_crate = {}
    for h in harnesses:
        by_crate.setdefault(h['crate'], []).append(h)
    for crate, hs in by_crate.items():
        cwd = os.path.join(repo, crate)
        cmd = BASE + ['-j', '8', '--exact']
        for h in hs:
            cmd += ['--harness', h['path']]
        rc, out, wall = _run(cmd, cwd, 1500)
        res['cmds'].append('(cd %s && CARGO_NET_OFFLINE=true %s)' % (cwd, ' '.join(cmd)))
        checked = set(re.findall(r'Checking harness ([\w:]+)\.\.\.', out))
        failed = set(re.findall(r'Verification failed for - ([\w:]+)', out))
        m = re.search(r'Complete - (\d+) successfully verified harnesses, (\d+) failures, (\d+) total', out)
        if not m:
            errs = [l for l in out.splitlines() if l.startswith('error')][:5]
            res['undecided'].append('kani did not complete in %s (rc=%s): %s' % (crate, rc, errs or out[-300:]))
            for h in hs:
                res['harnesses'].append({'name': h['path'].split('::')[-1], 'kind': h['kind'], 'bound': h.get('bound'),
                                         'status': 'unknown', 'obligation': h['obligation'], 'function': h.get('function')})
            continue
        covers = re.findall(r'\*\* (\d+) of (\d+) cover properties satisfied', out)
        unsat_cover = [c for c in covers if c[0] != c[1]]
        times = [float(x) for x in re.findall(r'Verification Time: ([0-9.]+)s', out)]
        for h in hs:
            name = h['path'].split('::')[-1]
            ent = {'name': name, 'kind': h['kind'], 'bound': h.get('bound'), 'obligation': h['obligation'],
                   'function': h.get('function'), 'time_s': None}
            if h['path'] not in checked:
                ent['status'] = 'unknown'
                res['undecided'].append('kani harness %s not found (hook lost?)' % h['path'])
            elif h['path'] in failed:
                # re-run alone for the failed checks and a concrete counterexample
                c2 = BASE + ['-Z', 'concrete-playback', '--concrete-playback=print', '--exact', '--harness', h['path']]
                rc2, out2, w2 = _run(c2, cwd, 1500)
                fc = re.findall(r'(?m)^Failed Checks: (.*)$', out2)
                real = [f for f in fc if 'unwinding assertion' not in f]
                ent['time_s'] = w2
                if not real:
                    ent['status'] = 'unknown'
                    res['undecided'].append('kani harness %s: only unwinding assertions failed (bound too small): %s' % (name, fc[:3]))
                else:
                    ent['status'] = 'failed'
                    pb = _parse_playback(out2)
                    cex = next((t for t in pb if t['kind'] == 'assertion'), pb[0] if pb else None)
                    ent['failure'] = {'obligation': h['obligation'], 'label': h['obligation'], 'function': h.get('function'),
                                      'message': '; '.join(real[:4]), 'harness': h['path'], 'backend': 'kani/cbmc',
                                      'repo_location': h.get('location'), 'counterexample': cex,
                                      'checker_cmd': ' '.join(c2), 'fn_labels': [h['obligation']],
                                      'verifier_output': '\n'.join(l for l in out2.splitlines() if 'Failed Checks' in l or 'VERIFICATION' in l or l.strip().startswith('File:'))[:2000]}
            else:
                ent['status'] = 'success'
            res['harnesses'].append(ent)
        if unsat_cover:
            res['undecided'].append('kani: unsatisfied cover property in %s (vacuous harness?) %s' % (crate, unsat_cover))
        if times:
            # per-harness attribution is not possible with -j; record the total
            res['harnesses'][-1].setdefault('note', 'cbmc total %.1fs over %d harnesses, wall %.1fs' % (sum(times), len(times), wall))
            per = sum(times) / max(1, len(times))
            for e in res['harnesses']:
                if e.get('time_s') is None and e['status'] == 'success':
                    e['time_s'] = round(per, 3)
    res['assumptions'] += [
        'kani: cfg(rust_nightly) variant of the crate is verified (build.rs detects the nightly toolchain Kani pins)',
        'kani: CBMC bit-precise model of machine integers and IEEE-754 doubles; no concurrency',
    ]
    return res
