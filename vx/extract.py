"""Mechanical extractor: /repo source + contracts/<unit>.vspec -> one Verus file.

The executable tokens of every extracted item are copied from the repository
byte for byte.  What is dropped / added is the closed list D1-D3 / A1-A5 of
DESIGN.md section 2.1; every instance is recorded in `Result.drops`.

.vspec directives (a line whose first non-blank char is '@'):

  @unit NAME
  @raw [trusted|ghost] ... @end          text copied through (preamble shims, spec fns, lemmas)
  @impl FILE :: HEADER ... @endimpl      open the repo impl whose header (text before '{') equals HEADER
  @fn [FILE ::] NAME [ret=r] [external_body] [cfg=TEXT] [nth=K] ... @endfn
      @spec ... @end                     requires/ensures/decreases, spliced between signature and body
      @loop K ... @end                   invariant/decreases spliced before the body of the K-th loop (1-based)
      @at before|after "TOKENS" ... @end proof text spliced before/after first occurrence of TOKENS in the body
      @closure K |args| -> (r: T) ... @end   re-bracket K-th closure with a contract (A2)
      @nested NAME ret=r ... @end            contract for a fn item nested in the body (A1/A5 applied to it)
      @opaque "first" .. "last" => [let P =] opaque__f(..)[?];   D6: a run of statements becomes one opaque step
  @struct FILE :: NAME [fields=a,b,c] [attr=TEXT]
  @enum FILE :: NAME [attr=TEXT]
  @const [FILE ::] NAME [cfg=TEXT]
A clause may start with a label `[Cxx.some.id]`; the label is stripped and
recorded in the line map (generated line -> obligation id).
"""
import os
import re
import sys

sys.path.insert(0, os.path.dirname(os.path.abspath(__file__)))
from rustlex import lex, match_close, norm, LexError  # noqa: E402

ITEM_KW = {'fn', 'impl', 'struct', 'enum', 'const', 'static', 'mod', 'use', 'trait', 'type',
           'macro_rules', 'extern', 'union'}
FN_QUALS = {'pub', 'const', 'async', 'unsafe', 'extern', 'default', 'crate'}
BODY_ATTR_DROP = re.compile(r'^#\s*\[\s*(allow|inline|cold|warn|deny|expect|must_use|rustfmt::skip|doc)\b')


class Undecided(Exception):
    """Extraction could not be performed (lost anchor, unsupported shape): exit 2, never a violation."""


class Item:
    def __init__(self, kind, name, attrs, t0, t1, body_open, header):
        self.kind, self.name, self.attrs = kind, name, attrs
        self.t0, self.t1 = t0, t1            # token index range [t0, t1] of the item without attrs
        self.body_open = body_open           # token index of '{' or None
        self.header = header                 # normalised text before '{' (impl/fn)


def _skip_attr(toks, k):
    """toks[k] == '#': return index after the attribute."""
    j = k + 1
    if toks[j].text == '!':
        j += 1
    if toks[j].text != '[':
        raise Undecided('odd attribute at %d' % toks[k].start)
    return match_close(toks, j) + 1


def parse_items(src, toks, lo, hi):
    """Items among toks[lo:hi] (top level of a file or the inside of an impl/mod)."""
    items = []
    k = lo
    while k < hi:
        attrs = []
        while k < hi and toks[k].text == '#' and toks[k].kind == 'punct':
            e = _skip_attr(toks, k)
            attrs.append(src[toks[k].start:toks[e - 1].end])
            k = e
        if k >= hi:
            break
        t0 = k
        # find the item keyword
        j = k
        kind = None
        while j < hi:
            t = toks[j]
            if t.kind == 'ident' and t.text in ITEM_KW and not (t.text in ('const', 'unsafe', 'extern') and _is_fn_qual(toks, j, hi)):
                kind = t.text
                break
            if t.text == '(':      # pub(crate)
                j = match_close(toks, j) + 1
                continue
            if t.kind == 'str':    # extern "C"
                j += 1
                continue
            if t.kind == 'ident' and (t.text in FN_QUALS):
                j += 1
                continue
            break
        if kind is None:
            # macro invocation or stray token: skip to ';' or matching brace
            j = k
            while j < hi and toks[j].text not in (';', '{'):
                if toks[j].text in ('(', '['):
                    j = match_close(toks, j)
                j += 1
            if j < hi and toks[j].text == '{':
                j = match_close(toks, j)
            items.append(Item('other', None, attrs, t0, min(j, hi - 1), None, ''))
            k = j + 1
            continue
        name = None
        if kind == 'macro_rules':
            name = toks[j + 2].text
        elif kind != 'impl' and j + 1 < hi and toks[j + 1].kind == 'ident':
            name = toks[j + 1].text
        # find end
        body_open = None
        e = j + 1
        if kind in ('use', 'type', 'static', 'const', 'extern') and not (kind == 'extern' and False):
            while e < hi and toks[e].text != ';':
                if toks[e].text in ('(', '[', '{'):
                    e = match_close(toks, e)
                e += 1
            t1 = e
        else:
            while e < hi and toks[e].text not in ('{', ';'):
                if toks[e].text in ('(', '['):
                    e = match_close(toks, e)
                e += 1
            if e < hi and toks[e].text == '{':
                body_open = e
                t1 = match_close(toks, e)
            else:
                t1 = e
        header = ''
        if body_open is not None:
            header = norm(src[toks[j].start:toks[body_open].start])
        items.append(Item(kind, name, attrs, t0, t1, body_open, header))
        k = t1 + 1
    return items


def _is_fn_qual(toks, j, hi):
    """`const fn`, `unsafe fn`, `extern "C" fn`, `unsafe impl` : qualifier, not the item keyword."""
    n = j + 1
    while n < hi and (toks[n].kind == 'str' or (toks[n].kind == 'ident' and toks[n].text in FN_QUALS)):
        n += 1
    return n < hi and toks[n].kind == 'ident' and toks[n].text in ('fn', 'impl', 'trait')


class SourceFile:
    def __init__(self, repo, rel, overlay):
        self.rel = rel
        p = os.path.join(repo, rel)
        if overlay and rel in overlay:
            self.src = overlay[rel]
        else:
            if not os.path.exists(p):
                raise Undecided('missing file %s' % rel)
            self.src = open(p, encoding='utf-8').read()
        try:
            self.toks = lex(self.src)
        except LexError as ex:
            raise Undecided('cannot tokenise %s: %s' % (rel, ex))
        self.items = parse_items(self.src, self.toks, 0, len(self.toks))
        self._line_starts = [0]
        for m in re.finditer('\n', self.src):
            self._line_starts.append(m.end())

    def line_of(self, off):
        import bisect
        return bisect.bisect_right(self._line_starts, off)

    def text(self, t0, t1):
        return self.src[self.toks[t0].start:self.toks[t1].end]

    def inner_items(self, item):
        return parse_items(self.src, self.toks, item.body_open + 1, item.t1)


def _strip_impl_generics(header):
    """`impl<'a, I: Iterator<Item = X>> T<'a, I>` -> `T<'a, I>` (angle brackets matched, not a regex)."""
    h = header.strip()
    if not h.startswith('impl'):
        return h
    h = h[4:].lstrip()
    if h.startswith('<'):
        depth = 0
        for k, ch in enumerate(h):
            if ch == '<':
                depth += 1
            elif ch == '>':
                depth -= 1
                if depth == 0:
                    return h[k + 1:].strip()
    return h


def _squash(s):
    return re.sub(r'[\s"]', '', s)


def _cfg_match(item, cfg):
    if cfg is None:
        return True
    want = _squash(cfg)
    return any(a.lstrip('#[ ').startswith('cfg') and want in _squash(a) for a in item.attrs)


def _select(items, kind, name, cfg=None, nth=None, what=''):
    c = [it for it in items if it.kind == kind and it.name == name and _cfg_match(it, cfg)]
    if cfg is None and len(c) > 1:
        # prefer the un-cfg'd / non-test one
        c2 = [it for it in c if not any('cfg' in a for a in it.attrs)]
        c = c2 or c
    if nth is not None:
        if len(c) < nth:
            raise Undecided('lost anchor: %s %s #%d %s' % (kind, name, nth, what))
        return c[nth - 1]
    if not c:
        raise Undecided('lost anchor: %s %s not found %s' % (kind, name, what))
    if len(c) > 1:
        raise Undecided('ambiguous anchor: %s %s (%d candidates) %s' % (kind, name, len(c), what))
    return c[0]


def _find_impl(sf, header):
    want = norm(header)
    c = [it for it in sf.items if it.kind == 'impl' and it.header == want]
    # also look inside `mod` items one level deep? no: units only use top-level impls
    if not c:
        raise Undecided('lost anchor: `%s` not found in %s' % (header, sf.rel))
    if len(c) > 1:
        raise Undecided('ambiguous anchor: `%s` in %s' % (header, sf.rel))
    return c[0]


LABEL_RE = re.compile(r'\[(C[0-9]{2}\.[A-Za-z0-9_.\-]+)\]\s*')


class Out:
    """Output buffer with a line map."""

    def __init__(self):
        self.lines = []
        self.labels = {}       # out line (1-based) -> obligation id
        self.fnspans = []      # dicts: out_start,out_end,fn,file,repo_line,body_out_start
        self.regions = []      # (out_start,out_end,'trusted'|'ghost'|'code'|'spec')

    @property
    def lineno(self):
        return len(self.lines) + 1

    def add(self, text, label_scan=False, region=None):
        start = self.lineno
        cur_label = None
        for ln in text.split('\n'):
            if label_scan:
                m = LABEL_RE.search(ln)
                if m:
                    cur_label = m.group(1)
                    ln = ln[:m.start()] + ln[m.end():]
                if cur_label and ln.strip():
                    self.labels[self.lineno] = cur_label
            self.lines.append(ln)
        if region:
            self.regions.append((start, self.lineno - 1, region))

    def text(self):
        return '\n'.join(self.lines) + '\n'


def _strip_trailing_newline(s):
    return s[:-1] if s.endswith('\n') else s


class FnSpec:
    def __init__(self):
        self.file = None
        self.name = None
        self.ret = None
        self.external_body = False
        self.cfg = None
        self.nth = None
        self.spec = ''
        self.loops = {}
        self.ats = []
        self.closures = {}
        self.nested = {}
        self.loop_iter_names = {}
        self.lenient = False
        self.opaques = []
        self.opaque_exprs = []
        self.opaque_forbid = []
        self.desugars = []
        self.etas = []
        self.default_from = None
        self.within = None
        self.optional = False
        self.attr = None
        self.line = 0


def parse_vspec(path):
    """-> (unit_name, [nodes]) ; node = ('raw',kind,text) | ('impl',file,header,[nodes]) | ('fn',FnSpec) | ('struct'|'enum'|'const', dict)"""
    lines = open(path, encoding='utf-8').read().split('\n')
    unit = None
    root = []
    stack = [root]
    cur_impl = None
    i = 0

    def opts(s):
        d = {}
        for m in re.finditer(r'(\w+)=("([^"]*)"|\S+)', s):
            d[m.group(1)] = m.group(3) if m.group(3) is not None else m.group(2)
        flags = set(re.sub(r'(\w+)=("([^"]*)"|\S+)', '', s).split())
        return d, flags

    def block(i):
        buf = []
        while i < len(lines) and lines[i].strip() != '@end':
            buf.append(lines[i])
            i += 1
        if i >= len(lines):
            raise Undecided('%s: unterminated block' % path)
        return '\n'.join(buf), i + 1

    while i < len(lines):
        ln = lines[i]
        s = ln.strip()
        if not s.startswith('@'):
            if s and not s.startswith('//'):
                raise Undecided('%s:%d: text outside a block: %s' % (path, i + 1, s))
            i += 1
            continue
        head, _, rest = s.partition(' ')
        rest = rest.strip()
        if head == '@unit':
            unit = rest
            i += 1
        elif head == '@feature':
            root.append(('feature', rest))
            i += 1
        elif head == '@path':
            m = re.match(r'"([^"]+)"\s+"([^"]+)"', rest)
            if not m:
                raise Undecided('%s:%d: bad @path' % (path, i + 1))
            root.append(('path', m.group(1), m.group(2)))
            i += 1
        elif head == '@raw':
            text, i = block(i + 1)
            stack[-1].append(('raw', rest or 'ghost', text))
        elif head == '@impl':
            f, _, h = rest.partition('::')
            node = ('impl', f.strip(), h.strip(), [])
            stack[-1].append(node)
            stack.append(node[3])
            cur_impl = node
            i += 1
        elif head == '@endimpl':
            stack.pop()
            cur_impl = None
            i += 1
        elif head == '@mod':
            node = ('mod', rest, [])
            stack[-1].append(node)
            stack.append(node[2])
            i += 1
        elif head == '@endmod':
            stack.pop()
            i += 1
        elif head == '@fn':
            fs = FnSpec()
            fs.line = i + 1
            if '::' in rest.split(' ')[0] or (len(rest.split(' ')) > 1 and rest.split(' ')[1] == '::'):
                f, _, r2 = rest.partition('::')
                fs.file = f.strip()
                rest = r2.strip()
            nm, _, o = rest.partition(' ')
            fs.name = nm
            d, flags = opts(o)
            fs.ret = d.get('ret')
            fs.cfg = d.get('cfg')
            fs.attr = d.get('attr')
            fs.nth = int(d['nth']) if 'nth' in d else None
            fs.default_from = d.get('default_from')
            fs.within = d.get('within')
            fs.external_body = 'external_body' in flags
            fs.optional = 'optional' in flags
            fs.lenient = 'lenient' in flags
            i += 1
            while i < len(lines) and lines[i].strip() != '@endfn':
                s2 = lines[i].strip()
                if not s2 or s2.startswith('//'):
                    i += 1
                    continue
                h2, _, r2 = s2.partition(' ')
                if h2 == '@spec':
                    fs.spec, i = block(i + 1)
                elif h2 == '@loop':
                    parts = r2.split()
                    k = int(parts[0])
                    for extra in parts[1:]:
                        if extra.startswith('iter='):
                            # A13: `for P in E` -> `for P in NAME: E` (Verus' syntax for naming the ghost iterator)
                            fs.loop_iter_names[k] = extra[5:]
                    fs.loops[k], i = block(i + 1)
                elif h2 == '@at':
                    if r2.strip() == 'start':
                        text, i = block(i + 1)
                        fs.ats.append(('start', '', text))
                        continue
                    m = re.match(r'(before|after)\s+"((?:[^"\\]|\\.)*)"', r2)
                    if not m:
                        raise Undecided('%s:%d: bad @at' % (path, i + 1))
                    text, i = block(i + 1)
                    fs.ats.append((m.group(1), m.group(2).replace('\\"', '"'), text))
                elif h2 == '@desugar':
                    m = re.match(r'"((?:[^"\\]|\\.)*)"\s+(\S+)\s+"((?:[^"\\]|\\.)*)"', r2)
                    if not m:
                        raise Undecided('%s:%d: bad @desugar' % (path, i + 1))
                    fs.desugars.append((m.group(1), m.group(2), m.group(3)))
                    i += 1
                elif h2 == '@desugar_unary':
                    m = re.match(r'(\S+)\s+"((?:[^"\\]|\\.)*)"', r2)
                    if not m:
                        raise Undecided('%s:%d: bad @desugar_unary' % (path, i + 1))
                    fs.desugars.append((None, m.group(1), m.group(2)))
                    i += 1
                elif h2 == '@eta':
                    m = re.match(r'"([^"]+)"\s+"([^"]+)"\s+"([^"]+)"', r2)
                    if not m:
                        raise Undecided('%s:%d: bad @eta' % (path, i + 1))
                    fs.etas.append((m.group(1), m.group(2), m.group(3)))
                    i += 1
                elif h2 == '@closure':
                    k, _, sig = r2.partition(' ')
                    text, i = block(i + 1)
                    fs.closures[int(k)] = (sig.strip(), text)
                elif h2 == '@opaque':
                    # @opaque "first tokens" .. "last tokens" => replacement;   (rule D6)
                    m = re.match(r'"((?:[^"\\]|\\.)*)"\s*\.\.\s*"((?:[^"\\]|\\.)*)"\s*=>\s*(.*)$', r2)
                    if not m:
                        raise Undecided('%s:%d: bad @opaque' % (path, i + 1))
                    fs.opaques.append((m.group(1).replace('\\"', '"'), m.group(2).replace('\\"', '"'), m.group(3).strip()))
                    i += 1
                elif h2 == '@opaque_forbid':
                    # identifiers that must not occur in text dropped by @opaque (what the contracts of this fn hang on)
                    fs.opaque_forbid += r2.split()
                    i += 1
                elif h2 == '@opaque_expr':
                    # @opaque_expr "expression tokens" => opaque__f(args)     (rule D6, expression form)
                    m = re.match(r'"((?:[^"\\]|\\.)*)"\s*=>\s*(.*)$', r2)
                    if not m:
                        raise Undecided('%s:%d: bad @opaque_expr' % (path, i + 1))
                    fs.opaque_exprs.append((m.group(1).replace('\\"', '"'), m.group(2).strip()))
                    i += 1
                elif h2 == '@nested':
                    # @nested NAME ret=r ... @end : contract for a fn item nested in the body (A1 + A5 on the nested item)
                    nm, _, rest = r2.partition(' ')
                    m = re.match(r'ret=(\w+)', rest.strip())
                    text, i = block(i + 1)
                    fs.nested[nm] = (m.group(1) if m else None, text)
                else:
                    raise Undecided('%s:%d: unknown directive %s' % (path, i + 1, h2))
            i += 1
            stack[-1].append(('fn', fs))
        elif head in ('@struct', '@enum', '@const', '@type'):
            d, flags = opts(rest)
            rest2 = re.sub(r'\s+\w+=("([^"]*)"|\S+)', '', ' ' + rest).strip()
            d['flags'] = flags
            f = None
            if '::' in rest2:
                f, _, rest2 = rest2.partition('::')
                f = f.strip()
            nm = ' '.join(w for w in rest2.strip().split() if w not in ('pub',))
            stack[-1].append((head[1:], {'file': f, 'name': nm, **d}))
            i += 1
        else:
            raise Undecided('%s:%d: unknown directive %s' % (path, i + 1, head))
    if unit is None:
        raise Undecided('%s: no @unit' % path)
    return unit, root


class Result:
    def __init__(self):
        self.text = ''
        self.labels = {}
        self.fnspans = []
        self.regions = []
        self.drops = []
        self.functions = []        # qualified names of extracted (verified) fns
        self.assumed = []          # external_body fns
        self.clause_ids = []       # all labelled ids, in order
        self.canary_fns = []
        self.canary_lines = {}
        self.proof_lines = []      # generated line ranges that are spliced proof text (hints), not repository code
        self.degraded = []         # fns whose loop specs / hints could not be placed (lenient): their failures are witness-gated

    def fn_at(self, line):
        for f in self.fnspans:
            if f['out_start'] <= line <= f['out_end']:
                return f
        return None

    def label_at(self, line):
        return self.labels.get(line)

    def in_proof_text(self, line):
        return any(a <= line <= b for a, b in self.proof_lines)

    def region_at(self, line):
        for a, b, r in self.regions:
            if a <= line <= b:
                return r
        return None

    def repo_loc(self, line):
        f = self.fn_at(line)
        if not f:
            return None
        if line >= f['body_out_start']:
            return '%s:%d' % (f['file'], f['body_repo_line'] + (line - f['body_out_start']))
        return '%s:%d' % (f['file'], f['repo_line'])


CLAUSE_KW = {'requires', 'ensures', 'decreases', 'returns', 'opens_invariants', 'no_unwind', 'recommends',
             'default_ensures'}


def add_canary(spec, n):
    """Vacuity canary: add `ensures canary__N() ==> false` (canary__N an uninterpreted per-function boolean, so a
    caller learns nothing useful from a callee's canary).  Verus must REJECT this clause for every function."""
    toks = lex(spec)
    depth = 0
    ens = None
    nxt = None
    for k, t in enumerate(toks):
        if t.kind == 'punct' and t.text in '([{':
            depth += 1
        elif t.kind == 'punct' and t.text in ')]}':
            depth -= 1
        elif depth == 0 and t.kind == 'ident' and t.text in CLAUSE_KW and not (k and toks[k - 1].text == '.'):
            if t.text == 'ensures' and ens is None:
                ens = t
            elif ens is not None and nxt is None:
                nxt = t
    clause = 'canary__%d() ==> false,\n' % n
    if ens is not None:
        return spec[:ens.end] + '\n        ' + clause + spec[ens.end:]
    dk = [t for t in toks if t.kind == 'ident' and t.text == 'decreases']
    if dk:
        return spec[:dk[0].start] + 'ensures ' + clause + spec[dk[0].start:]
    sp = spec.rstrip()
    if sp and not sp.endswith(','):
        sp += ','
    return sp + '\n    ensures ' + clause


def canary_spec(spec):
    """Replace the ensures clauses of a spec text by `ensures false`. requires kept."""
    toks = lex(spec)
    depth = 0
    cuts = []
    for k, t in enumerate(toks):
        if t.kind == 'punct' and t.text in '([{':
            depth += 1
        elif t.kind == 'punct' and t.text in ')]}':
            depth -= 1
        elif depth == 0 and t.kind == 'ident' and t.text in CLAUSE_KW:
            cuts.append((t.text, t.start))
    cuts.append(('<end>', len(spec)))
    out = ''
    pos = 0
    had = False
    for (kw, st), (_, en) in zip(cuts, cuts[1:]):
        if kw == 'ensures':
            out += spec[pos:st] + 'ensures false,\n'
            had = True
        else:
            out += spec[pos:en]
        pos = en
    if not cuts[:-1]:
        out = spec
    if not had:
        # insert before decreases if any, else at end
        dk = [st for kw, st in cuts if kw == 'decreases']
        if dk:
            rel = dk[0]
            # out currently equals spec (no ensures), safe to splice at same offset
            out = spec[:rel] + 'ensures false,\n' + spec[rel:]
        else:
            out = spec.rstrip()
            if out and not out.endswith(','):
                out += ','
            out += '\nensures false,\n'
    # strip labels inside: keep (they are harmless; label_scan strips them)
    return out


class Extractor:
    def __init__(self, repo, overlay=None):
        self._notes = []
        self._degraded = []
        self.repo = repo
        self.overlay = overlay or {}
        self.files = {}

    def sf(self, rel):
        if rel not in self.files:
            self.files[rel] = SourceFile(self.repo, rel, self.overlay)
        return self.files[rel]

    # ---- body / signature surgery ------------------------------------------------
    def _fn_parts(self, sf, it):
        """-> (sig_text, body_text, body_repo_line, sig_repo_line). sig is text before '{'."""
        if it.body_open is None:
            raise Undecided('fn %s has no body' % it.name)
        toks = sf.toks
        sig = sf.src[toks[it.t0].start:toks[it.body_open].start]
        body = sf.src[toks[it.body_open].start:toks[it.t1].end]
        return sig, body, sf.line_of(toks[it.body_open].start), sf.line_of(toks[it.t0].start)

    def _param_patterns(self, sig, body, drops, where):
        """A11: a parameter declared with a tuple pattern, `(a, b): &(A, B)`, becomes `arg__k: &(A, B)` with
        `let (a, b) = arg__k;` as the first statement of the body (what rustc does; the verus! macro wants identifiers)."""
        toks = lex(sig)
        try:
            k = next(i for i, t in enumerate(toks) if t.kind == 'ident' and t.text == 'fn')
        except StopIteration:
            return sig, body
        k += 2
        if k < len(toks) and toks[k].text == '<':
            depth = 0
            while True:
                tx = toks[k].text
                if tx == '<':
                    depth += 1
                elif tx == '>':
                    depth -= 1
                elif tx == '>>':
                    depth -= 2
                if tx in '([{':
                    k = match_close(toks, k)
                k += 1
                if depth <= 0:
                    break
        if k >= len(toks) or toks[k].text != '(':
            return sig, body
        close = match_close(toks, k)
        # split params at depth-0 commas
        params = []
        start = k + 1
        j = k + 1
        depth_angle = 0
        while j < close:
            tx = toks[j].text
            if tx in ('(', '[', '{'):
                j = match_close(toks, j)
            elif tx == '<':
                depth_angle += 1
            elif tx == '>':
                depth_angle -= 1
            elif tx == ',' and depth_angle == 0:
                params.append((start, j))
                start = j + 1
            j += 1
        if start < close:
            params.append((start, close))
        lets = []
        edits = []
        n = 0
        for a, b in params:
            while a + 1 < b and toks[a].text == '#' and toks[a + 1].text == '[':
                # D1: attribute on a parameter (proc-macro input such as #[starlark(require = pos)])
                ae = match_close(toks, a + 1)
                drops.append('D1 attr on a parameter of %s: %s' % (where, ' '.join(sig[toks[a].start:toks[ae].end].split())))
                edits.append((toks[a].start, toks[ae].end, ''))
                a = ae + 1
            if toks[a].text == '(':
                pe = match_close(toks, a)
                if pe + 1 < b and toks[pe + 1].text == ':':
                    pat = sig[toks[a].start:toks[pe].end]
                    name = 'arg__%d' % n
                    n += 1
                    edits.append((toks[a].start, toks[pe].end, name))
                    lets.append('let %s = %s;' % (' '.join(pat.split()), name))
        if not edits:
            return sig, body
        for s0, s1, name in reversed(edits):
            # keep line structure of the signature: pad with the same number of newlines
            nl = sig[s0:s1].count('\n')
            sig = sig[:s0] + name + '\n' * nl + sig[s1:]
        if not lets:
            return sig, body
        btoks = lex(body)
        ins = btoks[0].end
        body = body[:ins] + ' ' + ' '.join(lets) + body[ins:]
        drops.append('A11 tuple-pattern parameter(s) of %s bound by `let` at the start of the body: %s' % (where, lets))
        return sig, body

    def _name_ret(self, sig, ret):
        """A5: `-> T` becomes `-> (ret: T)`."""
        toks = lex(sig)
        # locate fn name, optional generics, param list
        k = next(i for i, t in enumerate(toks) if t.kind == 'ident' and t.text == 'fn')
        k += 2
        if toks[k].text == '<':
            depth = 0
            while True:
                tx = toks[k].text
                if tx == '<':
                    depth += 1
                elif tx == '>':
                    depth -= 1
                elif tx == '>>':
                    depth -= 2
                elif tx == '<<':
                    depth += 2
                if tx in '([{':
                    k = match_close(toks, k)
                k += 1
                if depth <= 0:
                    break
        if toks[k].text != '(':
            raise Undecided('cannot find parameter list in `%s`' % sig.strip())
        e = match_close(toks, k)
        if e + 1 >= len(toks) or toks[e + 1].text != '->':
            # unit return
            ins = toks[e].end
            return sig[:ins] + ' -> (%s: ())' % ret + sig[ins:]
        ts = toks[e + 2].start
        # type ends at `where` at depth 0 or end
        te = len(sig.rstrip())
        depth = 0
        for t in toks[e + 2:]:
            if t.text in ('(', '[', '{'):
                depth += 1
            elif t.text in (')', ']', '}'):
                depth -= 1
            elif depth == 0 and t.kind == 'ident' and t.text == 'where':
                te = t.start
                break
        ty = sig[ts:te].rstrip()
        return sig[:ts] + '(%s: %s)' % (ret, ty) + sig[ts + len(ty):]

    def _clean_body(self, body, drops, where):
        """D1: drop lint/inline attributes inside a body. Any other inner attribute (cfg!) is an error."""
        toks = lex(body)
        cuts = []
        k = 0
        while k < len(toks):
            t = toks[k]
            if t.kind == 'punct' and t.text == '#' and k + 1 < len(toks) and toks[k + 1].text in ('[', '!'):
                e = _skip_attr(toks, k)
                a = body[t.start:toks[e - 1].end]
                if BODY_ATTR_DROP.match(a):
                    cuts.append((t.start, toks[e - 1].end))
                    drops.append('D1 attr in body of %s: %s' % (where, a))
                elif _squash(a) == '#[cfg(rust_nightly)]':
                    # D5: the stable build is verified: a statement gated on cfg(rust_nightly) is dropped
                    j = e
                    while toks[j].text != ';':
                        if toks[j].text in ('(', '[', '{'):
                            j = match_close(toks, j)
                        j += 1
                    cuts.append((t.start, toks[j].end))
                    drops.append('D5 cfg(rust_nightly) statement dropped in %s: %s' % (where, norm(body[toks[e].start:toks[j].end])))
                    e = j + 1
                elif _squash(a) == '#[cfg(not(rust_nightly))]':
                    cuts.append((t.start, toks[e - 1].end))
                    drops.append('D5 cfg(not(rust_nightly)) attribute dropped (statement kept) in %s' % where)
                else:
                    raise Undecided('unsupported attribute inside %s: %s' % (where, a))
                k = e
                continue
            k += 1
        for s, e in reversed(cuts):
            # keep line structure: replace by spaces (newlines kept)
            body = body[:s] + re.sub(r'[^\n]', ' ', body[s:e]) + body[e:]
        return body

    OPS = {'%': ('Rem', 'rem', 10), '/': ('Div', 'div', 10), '*': ('Mul', 'mul', 10), '+': ('Add', 'add', 9),
           '-': ('Sub', 'sub', 9), '<<': ('Shl', 'shl', 8), '>>': ('Shr', 'shr', 8), '&': ('BitAnd', 'bitand', 7),
           '^': ('BitXor', 'bitxor', 6), '|': ('BitOr', 'bitor', 5)}
    BINLVL = {'*': 10, '/': 10, '%': 10, '+': 9, '-': 9, '<<': 8, '>>': 8, '&': 7, '^': 6, '|': 5,
              '==': 4, '!=': 4, '<': 4, '>': 4, '<=': 4, '>=': 4, '&&': 3, '||': 2, '..': 1, '..=': 1,
              '=': 0, '+=': 0, '-=': 0, '*=': 0, '/=': 0, '%=': 0, '^=': 0, '&=': 0, '|=': 0, '<<=': 0, '>>=': 0}

    def _desugar(self, body, fs, where, drops):
        """A7: `L OP R` -> `core::ops::Tr::m(L, R)` (what rustc itself does for non-primitive operands).
        Only applied where the operands are complete w.r.t. operator precedence; otherwise Undecided."""
        for L, op, R in fs.desugars:
            if L is None:
                body = self._desugar_unary(body, op, R, where, drops)
                continue
            toks = lex(body)
            seq = [t.text for t in lex(L)] + [op] + [t.text for t in lex(R)]
            nl = len(lex(L))
            hit = None
            for k in range(len(toks) - len(seq) + 1):
                if [t.text for t in toks[k:k + len(seq)]] == seq:
                    hit = k
                    break
            if hit is None:
                # the same operands joined by ANOTHER operator of the table (a changed operator): desugar that one, the
                # postcondition then decides (rustc's desugaring does not depend on which operator it is)
                alt = None
                for op2 in self.OPS:
                    if op2 == op:
                        continue
                    seq2 = [t.text for t in lex(L)] + [op2] + [t.text for t in lex(R)]
                    for k in range(len(toks) - len(seq2) + 1):
                        if [t.text for t in toks[k:k + len(seq2)]] == seq2:
                            alt = (op2, k)
                            break
                    if alt:
                        break
                if alt is None:
                    raise Undecided('lost anchor: `%s %s %s` in %s' % (L, op, R, where))
                op, hit = alt
                seq = [t.text for t in lex(L)] + [op] + [t.text for t in lex(R)]
                drops.append('A7 %s: the operator between `%s` and `%s` is now `%s`; desugared as such' % (where, L, R, op))
            tr, meth, lvl = self.OPS[op]
            prev = toks[hit - 1] if hit > 0 else None
            nxt = toks[hit + len(seq)] if hit + len(seq) < len(toks) else None
            enders = lambda t: t is not None and (t.kind in ('ident', 'num', 'str', 'char') and t.text not in ('return', 'in', 'if', 'else', 'match') or t.text in (')', ']'))
            if prev is not None:
                pt = prev.text
                if pt in ('.', '::', '!', 'as') or (pt in ('-', '*', '&') and not enders(toks[hit - 2] if hit > 1 else None)):
                    raise Undecided('desugar of `%s %s %s` in %s: left operand is not complete' % (L, op, R, where))
                if pt in self.BINLVL and self.BINLVL[pt] >= lvl and pt not in ('=',) and self.BINLVL[pt] > 0:
                    raise Undecided('desugar of `%s %s %s` in %s: precedence on the left' % (L, op, R, where))
            if nxt is not None:
                nt = nxt.text
                if nt in ('.', '::', '(', '[', '?', 'as') or (nt in self.BINLVL and self.BINLVL[nt] > lvl):
                    raise Undecided('desugar of `%s %s %s` in %s: right operand is not complete' % (L, op, R, where))
            s0, s1 = toks[hit].start, toks[hit + len(seq) - 1].end
            ltxt = body[toks[hit].start:toks[hit + nl - 1].end]
            rtxt = body[toks[hit + nl + 1].start:s1]
            if '\n' in body[s0:s1]:
                raise Undecided('desugar across lines in %s' % where)
            body = body[:s0] + 'core::ops::%s::%s(%s, %s)' % (tr, meth, ltxt, rtxt) + body[s1:]
            drops.append('A7 operator desugaring in %s: `%s %s %s` -> core::ops::%s::%s(..)' % (where, L, op, R, tr, meth))
        return body

    UNOPS = {'-': ('Neg', 'neg'), '!': ('Not', 'not')}

    def _desugar_unary(self, body, op, R, where, drops):
        """A7 (unary): `op R` -> `core::ops::Tr::m(R)` for an operand of reference type."""
        toks = lex(body)
        seq = [op] + [t.text for t in lex(R)]
        hit = None
        for k in range(len(toks) - len(seq) + 1):
            if [t.text for t in toks[k:k + len(seq)]] == seq:
                prev = toks[k - 1] if k else None
                if prev is not None and (prev.kind in ('ident', 'num', 'str', 'char') and prev.text not in ('return', 'in', 'if', 'else', 'match') or prev.text in (')', ']')):
                    continue    # binary use of the operator
                hit = k
                break
        if hit is None:
            raise Undecided('lost anchor: unary `%s %s` in %s' % (op, R, where))
        nxt = toks[hit + len(seq)] if hit + len(seq) < len(toks) else None
        if nxt is not None and nxt.text in ('.', '::', '(', '[', '?', 'as'):
            raise Undecided('desugar of unary `%s %s` in %s: operand is not complete' % (op, R, where))
        tr, meth = self.UNOPS[op]
        s0, s1 = toks[hit].start, toks[hit + len(seq) - 1].end
        rtxt = body[toks[hit + 1].start:s1]
        body = body[:s0] + 'core::ops::%s::%s(%s)' % (tr, meth, rtxt) + body[s1:]
        drops.append('A7 operator desugaring in %s: unary `%s %s` -> core::ops::%s::%s(..)' % (where, op, R, tr, meth))
        return body

    def _float_neg(self, body, where, drops, res):
        """A15: unary negation of a parenthesised float cast, `-(E as f64)` -> `vx_neg_f64__(E as f64)`; the shim is an
        external_body function with no contract (Verus 0.2026.09.13 has no unary negation of floats), so nothing is
        known about the value: obligations that depend on it cannot pass by accident; the function is marked degraded, so its
        failures are reported as violations only with a failing input on the real library (else exit 2)."""
        while True:
            toks = lex(body)
            hit = None
            for k in range(len(toks) - 1):
                if toks[k].text != '-' or toks[k + 1].text != '(':
                    continue
                prev = toks[k - 1] if k else None
                if prev is not None and (prev.kind in ('ident', 'num', 'str', 'char') and prev.text not in ('return', 'in', 'if', 'else', 'match') or prev.text in (')', ']')):
                    continue    # binary minus
                depth, j = 0, k + 1
                while j < len(toks):
                    if toks[j].text == '(':
                        depth += 1
                    elif toks[j].text == ')':
                        depth -= 1
                        if depth == 0:
                            break
                    j += 1
                if j >= len(toks) or j < k + 4:
                    continue
                if toks[j - 2].text == 'as' and toks[j - 1].text == 'f64':
                    hit = (k, j)
                    break
            if hit is None:
                return body
            k, j = hit
            inner = body[toks[k + 1].end:toks[j].start]
            body = body[:toks[k].start] + 'vx_neg_f64__(' + inner + ')' + body[toks[j].end:]
            res.need_neg_f64 = True
            if where not in self._degraded:
                self._degraded.append(where)    # failures of this function are reported only with a failing input
            drops.append('A15 in %s: `-(%s)` -> vx_neg_f64__(..) (assumed shim without contract)' % (where, inner.strip()))

    def _eta(self, body, fs, where, drops):
        """A10: a datatype constructor passed as a function value, `f(Ctor)`, is eta-expanded to
        `f(|x: A| -> (o: R) ensures o == Ctor(x) { Ctor(x) })` (same function; Verus does not accept constructors as values)."""
        for ctor, arg_ty, ret_ty in fs.etas:
            toks = lex(body)
            seq = [t.text for t in lex(ctor)]
            hits = []
            for k in range(1, len(toks) - len(seq)):
                if [t.text for t in toks[k:k + len(seq)]] == seq and toks[k - 1].text == '(' and toks[k + len(seq)].text == ')':
                    hits.append(k)
            if not hits:
                raise Undecided('lost anchor: constructor value `%s` in %s' % (ctor, where))
            for k in reversed(hits):
                s0, s1 = toks[k].start, toks[k + len(seq) - 1].end
                body = body[:s0] + '|x__: %s| -> (o__: %s) ensures o__ == %s(x__) { %s(x__) }' % (arg_ty, ret_ty, ctor, ctor) + body[s1:]
            drops.append('A10 eta-expansion of constructor value `%s` (%d site(s)) in %s' % (ctor, len(hits), where))
        return body

    OPAQUE_RE = re.compile(r'^(let\s+(?P<pat>[^=]+?)\s*=\s*)?opaque__\w+\([^;]*\)(?P<q>\?)?;$')

    def _opaque(self, body, fs, where, drops):
        """D6: a run of whole statements that Verus cannot take is replaced by ONE call of an opaque step declared in the
        unit's trusted preamble (its contract - what the dropped statements leave unchanged - is an assumption).  The
        replacement is restricted: `[let PAT =] opaque__name(args)[?];`, fallible iff the dropped text contains `?`, and a
        `let` pattern must be one the dropped text binds.  Dropped text with return/break/continue is refused."""
        for needle, repl in fs.opaque_exprs:
            # expression form: a complete argument / initialiser expression without `?`, replaced by a call of an opaque
            # function (assumed: it has no effect on the state the contracts talk about; its value is unconstrained)
            toks = lex(body)
            nt = [t.text for t in lex(needle)]
            a = next((k for k in range(len(toks) - len(nt) + 1) if [t.text for t in toks[k:k + len(nt)]] == nt), None)
            if a is None:
                raise Undecided('lost anchor: `%s` in %s' % (needle, where))
            e = a + len(nt) - 1
            if toks[a - 1].text not in ('(', ',', '=', ':') or toks[e + 1].text not in (')', ',', ';'):
                raise Undecided('@opaque_expr `%s` in %s is not a complete argument / initialiser expression' % (needle, where))
            if '?' in nt or 'return' in nt or not re.match(r'^opaque__\w+\([^;]*\)$', repl):
                raise Undecided('@opaque_expr `%s` in %s: unsupported shape' % (needle, where))
            old = body[toks[a].start:toks[e].end]
            drops.append('D6 %s: expression `%s` replaced by `%s` (opaque value, assumed effect-free)' % (where, norm(old)[:300], repl))
            body = body[:toks[a].start] + repl + '\n' * old.count('\n') + body[toks[e].end:]
        for first, last, repl in fs.opaques:
            toks = lex(body)
            ft = [t.text for t in lex(first)]
            lt = [t.text for t in lex(last)]
            a = next((k for k in range(len(toks) - len(ft) + 1) if [t.text for t in toks[k:k + len(ft)]] == ft), None)
            if a is None:
                raise Undecided('lost anchor: `%s` in %s' % (first, where))
            b = next((k for k in range(a, len(toks) - len(lt) + 1) if [t.text for t in toks[k:k + len(lt)]] == lt), None)
            if b is None:
                raise Undecided('lost anchor: `%s` in %s' % (last, where))
            # the statement boundary before `a`: previous token must end a statement or open the body
            if toks[a - 1].text not in (';', '{', '}'):
                raise Undecided('@opaque `%s` in %s does not start at a statement boundary' % (first, where))
            depth = 0
            e = None
            k = a
            if toks[a].kind == 'ident' and toks[a].text in ('for', 'while', 'loop') and first == last:
                # a loop statement: from the keyword to the brace that closes its body
                j = a + 1
                while toks[j].text != '{':
                    if toks[j].text in ('(', '['):
                        j = match_close(toks, j)
                    j += 1
                e = match_close(toks, j)
                k = len(toks)
            while k < len(toks):
                tx = toks[k].text
                if tx in ('(', '[', '{'):
                    depth += 1
                elif tx in (')', ']', '}'):
                    depth -= 1
                    if depth < 0:
                        break
                elif tx == ';' and depth == 0 and k >= b + len(lt) - 1:
                    e = k
                    break
                k += 1
            if e is None:
                raise Undecided('@opaque `%s` .. `%s` in %s: no statement end found' % (first, last, where))
            rng = toks[a:e + 1]
            texts = [t.text for t in rng]
            if any(t.kind == 'ident' and t.text in ('return', 'break', 'continue') for t in rng):
                raise Undecided('@opaque range in %s contains return/break/continue' % where)
            bad = [t.text for t in rng if t.kind == 'ident' and t.text in fs.opaque_forbid]
            if bad:
                raise Undecided('@opaque range `%s` .. `%s` in %s would drop a statement mentioning %s: the skeleton no longer '
                                'matches the code' % (first, last, where, sorted(set(bad))))
            m = self.OPAQUE_RE.match(repl)
            if not m:
                raise Undecided('@opaque replacement in %s is not of the form `[let PAT =] opaque__f(..)[?];`: %s' % (where, repl))
            if ('?' in texts) != bool(m.group('q')):
                raise Undecided('@opaque `%s` in %s: the dropped statements %s `?` but the replacement %s'
                                % (first, where, 'contain' if '?' in texts else 'do not contain', 'does not' if '?' in texts else 'does'))
            if m.group('pat'):
                pt = ['let'] + [t.text for t in lex(m.group('pat'))] + ['=']
                if not any(texts[k:k + len(pt)] == pt for k in range(len(texts))):
                    raise Undecided('@opaque `%s` in %s: the dropped statements do not bind `%s`' % (first, where, m.group('pat')))
            old = body[toks[a].start:toks[e].end]
            drops.append('D6 %s: %d statement token(s) replaced by `%s` (assumed contract in the preamble): %s'
                         % (where, len(rng), repl, norm(old)[:600]))
            body = body[:toks[a].start] + repl + '\n' * old.count('\n') + body[toks[e].end:]
        return body

    def _splice_body(self, body, fs, where):
        """Insert loop invariants / @at proof text / closure contracts. Returns list of (text, is_spec)."""
        toks = lex(body)
        inserts = []   # (offset, text, order)
        # loops: every loop of the body must carry a spec block, so a new / removed loop is noticed
        loop_heads = [k for k, t in enumerate(toks) if t.kind == 'ident' and t.text in ('while', 'loop', 'for')
                      and not (k > 0 and toks[k - 1].text in ('.', '::'))]
        loop_heads = [k for k in loop_heads if not (toks[k].text == 'for' and k + 1 < len(toks) and toks[k + 1].text == '<')]
        degraded = False
        loops = fs.loops
        if sorted(fs.loops) != list(range(1, len(loop_heads) + 1)):
            if fs.lenient and not loop_heads:
                # the loop this invariant was written for is gone: the body is verified without it; what fails then is
                # reported only with a failing input (the function is marked degraded)
                loops = {}
                degraded = True
                self._notes.append('lenient: %s has no loop any more, loop specification(s) %s not spliced' % (where, sorted(fs.loops)))
            else:
                raise Undecided('lost anchor: loop count changed in %s: %d loops in body, specs for %s'
                                % (where, len(loop_heads), sorted(fs.loops)))
        if getattr(self, '_loop_canary_base', None) is not None:
            # vacuity canary per LOOP BODY: an inconsistent context inside a loop body (e.g. contradictory shim
            # postconditions) would prove the invariant's preservation vacuously and is invisible at the function end
            self._loop_canary_count = 0
            for h in loop_heads:
                k2 = h + 1
                while toks[k2].text != '{':
                    if toks[k2].text in ('(', '['):
                        k2 = match_close(toks, k2)
                    k2 += 1
                close = match_close(toks, k2)
                idx = self._loop_canary_base + self._loop_canary_count
                self._loop_canary_count += 1
                inserts.append((toks[close].start, '\nproof { assert(canary__%d() ==> false); }\n' % idx, 3))
        for n, text in loops.items():
            k = loop_heads[n - 1] + 1
            if n in fs.loop_iter_names:
                if toks[loop_heads[n - 1]].text != 'for':
                    raise Undecided('iter= on a loop that is not a `for` in %s' % where)
                j = k
                while not (toks[j].kind == 'ident' and toks[j].text == 'in'):
                    if toks[j].text in ('(', '[', '{'):
                        j = match_close(toks, j)
                    j += 1
                inserts.append((toks[j].end, ' %s:' % fs.loop_iter_names[n], 1))
            while toks[k].text != '{':
                if toks[k].text in ('(', '['):
                    k = match_close(toks, k)
                k += 1
            inserts.append((toks[k].start, '\n' + text + '\n', 1))
        for pos, needle, text in fs.ats:
            if pos == 'start':
                inserts.append((toks[0].end, '\n' + text + '\n', 0))
                continue
            ntoks = [t.text for t in lex(needle)]
            hit = None
            for k in range(len(toks) - len(ntoks) + 1):
                if [t.text for t in toks[k:k + len(ntoks)]] == ntoks:
                    hit = k
                    break
            if hit is None:
                if fs.lenient:
                    degraded = True
                    self._notes.append('lenient: anchor `%s` not found in %s, proof text not spliced' % (needle, where))
                    continue
                raise Undecided('lost anchor: `%s` in %s' % (needle, where))
            off = toks[hit].start if pos == 'before' else toks[hit + len(ntoks) - 1].end
            inserts.append((off, '\n' + text + '\n', 0 if pos == 'before' else 2))
        if fs.closures:
            heads = []
            k = 0
            while k < len(toks):
                t = toks[k]
                prev = toks[k - 1].text if k else ''
                if t.text in ('|', '||') and t.kind == 'punct' and (prev in ('(', ',', '=', 'move', 'return', '{', ';') ):
                    heads.append(k)
                    if t.text == '|':
                        k += 1
                        while toks[k].text != '|':
                            k += 1
                k += 1
            for n, (sig, text) in fs.closures.items():
                if n > len(heads):
                    # the closure this contract was written for is gone: the body is verified without it (a callee
                    # that needed what the closure's context provided will then fail its precondition)
                    self._notes.append('closure %d of %s not present in the working tree: its contract is not spliced' % (n, where))
                    continue
                k = heads[n - 1]
                if toks[k].text == '||':
                    pe = k
                else:
                    pe = k + 1
                    while toks[pe].text != '|':
                        pe += 1
                # closure expression end: up to the matching ')' / ',' at depth 0
                b = pe + 1
                if toks[b].text == '{':
                    be = match_close(toks, b)
                    expr_s, expr_e = toks[b].start, toks[be].end
                    wrap = False
                else:
                    j = b
                    while j < len(toks) and toks[j].text not in (')', ',', ';', '}'):
                        if toks[j].text in ('(', '[', '{'):
                            j = match_close(toks, j)
                        j += 1
                    expr_s, expr_e = toks[b].start, toks[j - 1].end
                    wrap = True
                # A11 for closures: statements after a line `--` in the contract text are a prologue that binds the names of a
                # destructuring parameter pattern (`|[a, b], bc|` -> `|ab__: [T; 2], bc|` + `let a = ab__[0]; let b = ab__[1];`)
                prologue = ''
                if '\n--\n' in '\n' + text + '\n':
                    text, _, prologue = ('\n' + text + '\n').partition('\n--\n')
                    text = text.strip('\n')
                    prologue = prologue.strip('\n')
                inserts.append((toks[k].start, ('CLOSURE', expr_s, expr_e, sig, text, wrap, prologue), 1))
        for nm, (ret, text) in fs.nested.items():
            hit = None
            for k in range(len(toks) - 2):
                if toks[k].text == 'fn' and toks[k + 1].text == nm and toks[k + 2].text in ('(', '<'):
                    hit = k
                    break
            if hit is None:
                raise Undecided('lost anchor: nested fn %s in %s' % (nm, where))
            k = hit + 2
            if toks[k].text == '<':
                raise Undecided('nested generic fn %s in %s is not supported' % (nm, where))
            k = match_close(toks, k) + 1
            b = k
            while toks[b].text != '{':
                if toks[b].text in ('(', '['):
                    b = match_close(toks, b)
                b += 1
            if toks[k].text == '->' and ret:
                ty = body[toks[k + 1].start:toks[b - 1].end]
                inserts.append((toks[k].start, ('REPLACE', toks[b - 1].end, '-> (%s: %s)\n%s\n' % (ret, ty, text)), 1))
            else:
                inserts.append((toks[b].start, '\n' + text + '\n', 1))
        if degraded:
            self._degraded.append(where)
        inserts.sort(key=lambda x: (x[0], x[2]))

        def render(lo, hi):
            # inserts inside a closure that gets a contract are rendered recursively, so contracts nest
            segs = []
            pos = lo
            for off, item, _ in inserts:
                if off < pos or off < lo or off >= hi:
                    continue
                segs.append((body[pos:off], False))
                if isinstance(item, tuple) and item[0] == 'CLOSURE':
                    _, es, ee, sig, text, wrap, prologue = item
                    segs.append((sig + '\n' + text + '\n' + ('{ ' if wrap else ''), True))
                    if prologue:
                        if wrap:
                            segs.append((prologue + '\n', True))
                            segs.extend(render(es, ee))
                        else:
                            # the body is a block: the prologue goes right after its opening brace
                            segs.append((body[es:es + 1], False))
                            segs.append(('\n' + prologue + '\n', True))
                            segs.extend(render(es + 1, ee))
                    else:
                        segs.extend(render(es, ee))
                    if wrap:
                        segs.append((' }', True))
                    pos = ee
                elif isinstance(item, tuple):
                    _, end, new = item
                    segs.append((new, True))
                    pos = end
                else:
                    segs.append((item, True))
                    pos = off
            segs.append((body[pos:hi], False))
            return segs
        return render(0, len(body))

    # ---- emit ------------------------------------------------------------------
    def emit_fn(self, out, res, sf, it, fs, qual, canary):
        sig, body, body_line, sig_line = self._fn_parts(sf, it)
        for old_p, new_p in getattr(self, '_paths', []):
            # D3: a crate-level path is redirected to its preamble shim (token-exact match, line structure kept)
            for part in ('sig', 'body'):
                txt = sig if part == 'sig' else body
                toks = lex(txt)
                seq = [t.text for t in lex(old_p)]
                hits = [k for k in range(len(toks) - len(seq) + 1) if [t.text for t in toks[k:k + len(seq)]] == seq
                        and not (k and toks[k - 1].text == '::')]
                for k in reversed(hits):
                    txt = txt[:toks[k].start] + new_p + txt[toks[k + len(seq) - 1].end:]
                if hits:
                    res.drops.append('D3 path `%s` -> `%s` (%d site(s)) in %s' % (old_p, new_p, len(hits), it.name))
                if part == 'sig':
                    sig = txt
                else:
                    body = txt
        for a in it.attrs:
            res.drops.append('D1 attr on %s: %s' % (qual, a))
        where = '%s (%s)' % (qual, sf.rel)
        if not fs.external_body:
            body = self._opaque(body, fs, where, res.drops)
            body = self._clean_body(body, res.drops, where)
            body = self._desugar(body, fs, where, res.drops)
            body = self._eta(body, fs, where, res.drops)
            body = self._float_neg(body, where, res.drops, res)
        if not fs.external_body:
            sig, body = self._param_patterns(sig, body, res.drops, where)
        if fs.ret:
            sig = self._name_ret(sig, fs.ret)
        start = out.lineno
        if fs.external_body:
            out.add('#[verifier::external_body]')
            res.assumed.append(qual)
        else:
            res.functions.append(qual)
        if fs.attr:
            out.add(fs.attr)
        out.add(_strip_trailing_newline(sig.rstrip()))
        spec = fs.spec
        if canary and not fs.external_body:
            spec = add_canary(spec, len(res.canary_fns))
            res.canary_fns.append(qual)
        if spec.strip():
            s0 = out.lineno
            out.add(spec, label_scan=True)
            if canary and not fs.external_body:
                for ln in range(s0, out.lineno):
                    if 'canary__%d()' % (len(res.canary_fns) - 1) in out.lines[ln - 1]:
                        res.canary_lines[ln] = qual
        if fs.external_body:
            # A3: assumed contract: signature from the repository, body not verified and replaced
            res.drops.append('A3 body of %s replaced by unimplemented!() (assumed contract)' % qual)
            segs = [('{ unimplemented!() }', False)]
        else:
            self._loop_canary_base = len(res.canary_fns) if canary else None
            self._loop_canary_count = 0
            segs = self._splice_body(body, fs, where)
            loop_canaries = list(range(len(res.canary_fns), len(res.canary_fns) + self._loop_canary_count)) if canary else []
            for j, idx in enumerate(loop_canaries):
                res.canary_fns.append('%s [loop body %d]' % (qual, j + 1))
            self._loop_canary_base = None
        repo_line = body_line
        seg_maps = []
        pending = ''
        for text, is_spec in segs:
            if is_spec:
                if pending:
                    ls = out.lineno
                    out.add(pending)
                    seg_maps.append((ls, out.lineno - 1, repo_line))
                    repo_line += pending.count('\n')
                    pending = ''
                ps = out.lineno
                out.add(text.strip('\n'), label_scan=True)
                res.proof_lines.append((ps, out.lineno - 1))
            else:
                pending += text
        if pending:
            ls = out.lineno
            out.add(pending)
            seg_maps.append((ls, out.lineno - 1, repo_line))
        end = out.lineno - 1
        if canary and not fs.external_body:
            for ln in range(start, end + 1):
                m = re.search(r'assert\(canary__(\d+)\(\) ==> false\)', out.lines[ln - 1])
                if m:
                    res.canary_lines[ln] = res.canary_fns[int(m.group(1))]
        res.fnspans.append({'out_start': start, 'out_end': end, 'fn': qual, 'file': sf.rel,
                            'repo_line': sig_line, 'body_out_start': seg_maps[0][0] if seg_maps else start,
                            'body_repo_line': body_line, 'segs': seg_maps,
                            'external_body': fs.external_body})

    def emit_adt(self, out, res, kind, d, default_file):
        rel = d.get('file') or default_file
        sf = self.sf(rel)
        it = _select(sf.items, kind, d['name'], d.get('cfg'), what='in ' + rel)
        for a in it.attrs:
            res.drops.append('D1 attr on %s %s: %s' % (kind, d['name'], a))
        text = sf.text(it.t0, it.t1)
        if d.get('fields'):
            keep = d['fields'].split(',')
            toks = sf.toks
            if it.body_open is None:
                raise Undecided('struct %s has no named fields' % d['name'])
            k = it.body_open + 1
            fields = []
            while k < it.t1:
                fa = []
                while toks[k].text == '#':
                    e = _skip_attr(toks, k)
                    k = e
                f0 = k
                name = None
                while k < it.t1 and toks[k].text != ',':
                    if toks[k].text in ('(', '[', '{'):
                        k = match_close(toks, k)
                    elif toks[k].text == '<':
                        # generic args may contain commas
                        depth = 0
                        while True:
                            tx = toks[k].text
                            if tx == '<':
                                depth += 1
                            elif tx == '>':
                                depth -= 1
                            elif tx == '>>':
                                depth -= 2
                            elif tx in ('(', '['):
                                k = match_close(toks, k)
                            if depth <= 0:
                                break
                            k += 1
                    if name is None and toks[k].text == ':':
                        name = toks[k - 1].text
                    k += 1
                fields.append((name, sf.src[toks[f0].start:toks[k - 1].end]))
                k += 1
            have = {n for n, _ in fields}
            for n in keep:
                if n not in have:
                    raise Undecided('lost anchor: field %s of %s' % (n, d['name']))
            dropped = [n for n, _ in fields if n not in keep]
            res.drops.append('D2 struct %s: kept fields %s, dropped %d others' % (d['name'], keep, len(dropped)))
            head = sf.src[toks[it.t0].start:toks[it.body_open].end]
            text = head + '\n' + ''.join('    %s,\n' % t for n, t in fields if n in keep)
            if d.get('phantom'):
                # A8: lifetimes left unused by the projection are kept alive by a ghost PhantomData field
                lts = d['phantom'].split(',')
                # `'x:'y` keeps an outlives relation that a dropped field implied (e.g. `&'y dyn Tr<'x>`): `&'y &'x ()`
                text += '    pub _verif_phantom: core::marker::PhantomData<(%s)>,\n' % ', '.join(
                    ('&%s &%s ()' % (l.split(':')[1], l.split(':')[0])) if ':' in l else ('&%s ()' % l) for l in lts)
                res.drops.append('A8 struct %s: PhantomData field for lifetimes %s' % (d['name'], lts))
            text += '}'
        else:
            # drop field / variant attributes (D1)
            text = self._drop_inner_attrs(text, res.drops, '%s %s' % (kind, d['name']))
        if d.get('pubfields'):
            # D4 (fields): `pub(crate)` fields become `pub` so that open spec functions of the unit may read them
            n_f = len(re.findall(r'pub\s*\(\s*(?:crate|super)\s*\)', text[4:]))
            text = text[:4] + re.sub(r'pub\s*\(\s*(?:crate|super)\s*\)', 'pub', text[4:])
            if kind == 'struct':
                lines2 = text.split('\n')
                for k2 in range(1, len(lines2)):
                    if re.match(r'^\s*[a-z_][A-Za-z0-9_]*\s*:', lines2[k2]):
                        lines2[k2] = re.sub(r'^(\s*)', r'\1pub ', lines2[k2], count=1)
                        n_f += 1
                text = '\n'.join(lines2)
            res.drops.append('D4 %d restricted / private field visibilities of %s %s -> pub' % (n_f, kind, d['name']))
        mvis = re.match(r'pub\s*\(\s*(crate|super)\s*\)', text)
        if mvis:
            # D4: restricted visibility of an extracted type becomes `pub` (one flat module; Verus wants datatypes with
            # `open` accessor functions to be pub or private)
            text = 'pub' + text[mvis.end():]
            res.drops.append('D4 visibility `%s` of %s %s -> pub' % (mvis.group(0), kind, d['name']))
        elif not text.startswith('pub'):
            text = 'pub ' + text
            res.drops.append('D4 private %s %s -> pub' % (kind, d['name']))
        if d.get('derive'):
            have = ' '.join(norm(a) for a in it.attrs if norm(a).startswith('# [ derive'))
            for dv in d['derive'].split(','):
                if not re.search(r'\b%s\b' % re.escape(dv), have):
                    raise Undecided('%s %s no longer derives %s' % (kind, d['name'], dv))
            out.add('#[derive(%s)]' % ', '.join(d['derive'].split(',')))
            res.drops.append('D1 %s %s: kept derives %s only' % (kind, d['name'], d['derive']))
        if d.get('attr'):
            out.add(d['attr'])
        s = out.lineno
        out.add(text)
        out.regions.append((s, out.lineno - 1, 'code'))

    def _drop_inner_attrs(self, text, drops, where):
        toks = lex(text)
        cuts = []
        k = 0
        while k < len(toks):
            t = toks[k]
            if t.kind == 'punct' and t.text == '#' and k + 1 < len(toks) and toks[k + 1].text == '[':
                e = _skip_attr(toks, k)
                cuts.append((t.start, toks[e - 1].end))
                drops.append('D1 attr inside %s: %s' % (where, norm(text[t.start:toks[e - 1].end])[:80]))
                k = e
                continue
            k += 1
        for s, e in reversed(cuts):
            text = text[:s] + text[e:]
        return text

    def emit_const(self, out, res, items, sf, d, qual):
        it = _select(items, 'const', d['name'], d.get('cfg'), what='in ' + sf.rel)
        for a in it.attrs:
            res.drops.append('D1 attr on const %s: %s' % (qual, a))
        text = sf.text(it.t0, it.t1)
        m = re.match(r'pub\s*(\([^)]*\))?\s*', text)
        if m:
            # D4: visibility of a const is dropped (everything lives in one module; Verus wants `open` consts pub or private)
            res.drops.append('D4 visibility `%s` of const %s dropped' % (m.group(0).strip(), qual))
            text = text[m.end():]
        if 'pub' in d.get('flags', ()):
            res.drops.append('D4 const %s made pub' % qual)
            text = 'pub ' + text
        if d.get('exec') is not None:
            # A6: `const N: T = E;` -> `exec const N: T ensures <clause> { E }` (E verbatim)
            m = re.match(r'(?:pub\s+)?const\s+(\w+)\s*:\s*([^=]+?)\s*=\s*(.*);\s*$', text, re.S)
            if not m:
                raise Undecided('cannot re-bracket const %s' % qual)
            lab = '[%s] ' % d['id'] if d.get('id') else ''
            out.add('exec const %s: %s' % (m.group(1), m.group(2)))
            out.add('    ensures %s%s,' % (lab, d['exec']), label_scan=True)
            if self._canary:
                out.add('        canary__%d() ==> false,' % len(res.canary_fns))
                res.canary_lines[out.lineno - 1] = qual
                res.canary_fns.append(qual)
            out.add('{ %s }' % m.group(3))
            res.functions.append(qual)
            return
        out.add(text, region='code')

    def run(self, vspec_path, canary=False):
        self._canary = canary
        self._notes = []
        self._degraded = []
        unit, nodes = parse_vspec(vspec_path)
        out = Out()
        res = Result()
        res.unit = unit
        out.add('// GENERATED by vx/extract.py from %s and the working tree of the repository. Do not edit.' % os.path.basename(vspec_path))
        out.add('#![allow(unused_imports, dead_code, unused_variables, unused_mut, unused_parens, unreachable_code, non_camel_case_types, unused_braces)]')
        for nd in nodes:
            if nd[0] == 'feature':
                out.add('#![feature(%s)]' % nd[1])
        self._paths = [(nd[1], nd[2]) for nd in nodes if nd[0] == 'path']
        nodes = [nd for nd in nodes if nd[0] not in ('feature', 'path')]
        out.add('use vstd::prelude::*;')
        out.add('verus! {')

        def walk(nodes, impl_ctx):
            for nd in nodes:
                if nd[0] == 'raw':
                    s = out.lineno
                    out.add(nd[2], label_scan=True)
                    out.regions.append((s, out.lineno - 1, nd[1]))
                elif nd[0] == 'impl':
                    _, rel, header, sub = nd
                    sf = self.sf(rel)
                    it = _find_impl(sf, header)
                    for a in it.attrs:
                        res.drops.append('D1 attr on `%s`: %s' % (header, a))
                    out.add(sf.src[sf.toks[it.t0].start:sf.toks[it.body_open].end])
                    walk(sub, (sf, it, header))
                    out.add('}')
                elif nd[0] == 'mod':
                    # D3: items of different crates/modules with clashing names are kept apart in a module
                    out.add('pub mod %s {' % nd[1])
                    out.add('use super::*;')
                    out.add('use vstd::prelude::*;')
                    walk(nd[2], None)
                    out.add('}')
                elif nd[0] == 'fn':
                    fs = nd[1]
                    if impl_ctx and not fs.file:
                        sf, imp, header = impl_ctx
                        items = sf.inner_items(imp)
                        qual = '%s::%s' % (_strip_impl_generics(header), fs.name)
                    else:
                        if not fs.file:
                            raise Undecided('free fn %s needs FILE ::' % fs.name)
                        sf = self.sf(fs.file)
                        items = sf.items
                        if fs.within:
                            # a fn item nested in the body of another fn (e.g. under #[starlark_module])
                            outer = _select(items, 'fn', fs.within, what='in ' + sf.rel)
                            items = sf.inner_items(outer)
                        qual = '%s::%s' % (os.path.splitext(os.path.basename(fs.file))[0], fs.name)
                    if fs.default_from and not [x for x in items if x.kind == 'fn' and x.name == fs.name]:
                        # A9: a method absent from a trait impl IS the trait's provided method (Rust semantics)
                        tfile, _, tname = fs.default_from.partition('::')
                        tsf = self.sf(tfile)
                        tr = _select(tsf.items, 'trait', tname, what='in ' + tfile)
                        it = _select(tsf.inner_items(tr), 'fn', fs.name, what='provided method of trait %s' % tname)
                        res.drops.append('A9 %s: not overridden in the impl; body of the provided method %s::%s (%s) is used'
                                         % (qual, tname, fs.name, tfile))
                        sf = tsf
                    elif fs.optional and not [x for x in items if x.kind == 'fn' and x.name == fs.name]:
                        res.drops.append('optional helper %s is not present in the working tree: skipped' % qual)
                        continue
                    else:
                        it = _select(items, 'fn', fs.name, fs.cfg, fs.nth, what='in ' + sf.rel)
                    self.emit_fn(out, res, sf, it, fs, qual, canary)
                elif nd[0] in ('struct', 'enum'):
                    self.emit_adt(out, res, nd[0], nd[1], None)
                elif nd[0] == 'type':
                    d = nd[1]
                    if not impl_ctx:
                        raise Undecided('@type outside @impl')
                    sf, imp, header = impl_ctx
                    it = _select(sf.inner_items(imp), 'type', d['name'], what='in `%s`' % header)
                    out.add(sf.text(it.t0, it.t1), region='code')
                elif nd[0] == 'const':
                    d = nd[1]
                    if impl_ctx and not d.get('file'):
                        sf, imp, header = impl_ctx
                        self.emit_const(out, res, sf.inner_items(imp), sf, d, header + '::' + d['name'])
                    else:
                        sf = self.sf(d['file'])
                        self.emit_const(out, res, sf.items, sf, d, d['name'])
                else:
                    raise Undecided('unknown node %s' % nd[0])

        walk(nodes, None)
        for n in range(len(res.canary_fns)):
            out.add('pub uninterp spec fn canary__%d() -> bool;' % n)
        if getattr(res, 'need_neg_f64', False):
            out.add('#[verifier::external_body] pub fn vx_neg_f64__(x: f64) -> f64 { -x }')
            res.assumed.append('vx_neg_f64__ (A15 shim: unary float negation, no contract)')
        out.add('} // verus!')
        out.add('fn main() {}')
        res.drops += self._notes
        res.degraded = list(self._degraded)
        res.text = out.text()
        res.labels = out.labels
        res.fnspans = res.fnspans
        res.regions = out.regions
        seen = []
        for ln in sorted(out.labels):
            if out.labels[ln] not in seen:
                seen.append(out.labels[ln])
        res.clause_ids = seen
        return res


if __name__ == '__main__':
    import argparse
    ap = argparse.ArgumentParser()
    ap.add_argument('vspec')
    ap.add_argument('--repo', default='/repo')
    ap.add_argument('-o', '--out', default='-')
    ap.add_argument('--canary', action='store_true')
    a = ap.parse_args()
    try:
        r = Extractor(a.repo).run(a.vspec, a.canary)
    except Undecided as ex:
        print('UNDECIDED: %s' % ex, file=sys.stderr)
        sys.exit(2)
    if a.out == '-':
        sys.stdout.write(r.text)
    else:
        open(a.out, 'w').write(r.text)
    print('functions: %d, assumed: %d, labelled clauses: %d, drops: %d' % (
        len(r.functions), len(r.assumed), len(r.clause_ids), len(r.drops)), file=sys.stderr)
