#!/bin/bash
# dev helper: extract a unit and run verus, printing rendered diagnostics
cd /verif && python3 vx/extract.py contracts/$1.vspec -o build/$1.rs || exit 2
cd build && verus $1.rs --error-format=json ${@:2} 2>&1 | python3 -c "
import sys,json
for l in sys.stdin:
    try: d=json.loads(l); print(d.get('rendered') or d)
    except Exception: print(l,end='')
"
