#!/usr/bin/env python3
"""dev helper: vx/mut.py UNIT FILE 'old' 'new'  -> extract with an in-memory mutated file and run verus"""
import sys, subprocess, json, os
sys.path.insert(0, os.path.dirname(os.path.abspath(__file__)))
from extract import Extractor, Undecided
unit, rel, old, new = sys.argv[1:5]
src = open('/repo/' + rel).read()
assert src.count(old) >= 1, 'pattern not found'
n = int(sys.argv[5]) if len(sys.argv) > 5 else 1
parts = src.split(old)
src2 = old.join(parts[:n]) + new + old.join(parts[n:])
try:
    r = Extractor('/repo', {rel: src2}).run('/verif/contracts/%s.vspec' % unit)
except Undecided as e:
    print('UNDECIDED', e); sys.exit(2)
os.makedirs('/verif/build', exist_ok=True)
p = '/verif/build/%s_mut.rs' % unit
open(p, 'w').write(r.text)
out = subprocess.run(['verus', p, '--error-format=json'], capture_output=True, text=True, cwd='/verif/build')
for l in out.stderr.splitlines():
    try:
        d = json.loads(l)
    except Exception:
        continue
    if d.get('level') == 'error' and d.get('spans'):
        for sp in d['spans']:
            if sp['is_primary']:
                print(d['message'], '| line', sp['line_start'], '|', r.label_at(sp['line_start']), '|', (r.fn_at(sp['line_start']) or {}).get('fn'))
print(out.stdout.strip().splitlines()[-1] if out.stdout.strip() else '')
