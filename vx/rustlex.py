"""Minimal Rust token scanner used by the mechanical extractor.

It does not parse Rust; it yields tokens with byte offsets so that items,
signatures, bodies, loops and closures can be located by bracket matching and
the original text copied *byte for byte*.

Token kinds: 'ident', 'num', 'str', 'char', 'life', 'punct', 'comment', 'doc'.
"""
import re

IDENT_START = re.compile(r'[A-Za-z_]')
IDENT_RE = re.compile(r'[A-Za-z_][A-Za-z0-9_]*')
NUM_RE = re.compile(r'[0-9][0-9A-Za-z_]*(\.[0-9][0-9A-Za-z_]*)?([eE][+-]?[0-9_]+)?[A-Za-z0-9_]*')
PUNCT3 = ('<<=', '>>=', '...', '..=')
PUNCT2 = ('::', '->', '=>', '==', '!=', '<=', '>=', '&&', '||', '+=', '-=', '*=', '/=',
          '%=', '^=', '&=', '|=', '<<', '>>', '..')


class Tok:
    __slots__ = ('kind', 'text', 'start', 'end')

    def __init__(self, kind, text, start, end):
        self.kind, self.text, self.start, self.end = kind, text, start, end

    def __repr__(self):
        return f'{self.kind}:{self.text!r}@{self.start}'


class LexError(Exception):
    pass


def lex(src, keep_comments=False):
    toks = []
    i, n = 0, len(src)
    while i < n:
        c = src[i]
        if c.isspace():
            i += 1
            continue
        if src.startswith('//', i):
            j = src.find('\n', i)
            j = n if j < 0 else j
            if keep_comments:
                kind = 'doc' if (src.startswith('///', i) and not src.startswith('////', i)) or src.startswith('//!', i) else 'comment'
                toks.append(Tok(kind, src[i:j], i, j))
            i = j
            continue
        if src.startswith('/*', i):
            depth, j = 1, i + 2
            while j < n and depth:
                if src.startswith('/*', j):
                    depth += 1
                    j += 2
                elif src.startswith('*/', j):
                    depth -= 1
                    j += 2
                else:
                    j += 1
            if depth:
                raise LexError('unterminated block comment')
            if keep_comments:
                toks.append(Tok('comment', src[i:j], i, j))
            i = j
            continue
        # raw strings / byte strings / raw idents
        m = re.match(r'(br|r|b|c|cr)?(#*)"', src[i:i + 40]) if c in 'rbc"' else None
        if m and (c == '"' or m.group(1)):
            pre, hashes = m.group(1) or '', m.group(2)
            if 'r' in pre:
                close = '"' + hashes
                j = src.find(close, i + m.end())
                if j < 0:
                    raise LexError('unterminated raw string')
                j += len(close)
            elif hashes:
                m = None
                j = None
            else:
                j = i + m.end()
                while j < n and src[j] != '"':
                    j += 2 if src[j] == '\\' else 1
                j += 1
            if m:
                toks.append(Tok('str', src[i:j], i, j))
                i = j
                continue
        if c == 'b' and src.startswith("b'", i):
            j = i + 2
            while j < n and src[j] != "'":
                j += 2 if src[j] == '\\' else 1
            j += 1
            toks.append(Tok('char', src[i:j], i, j))
            i = j
            continue
        if c == "'":
            # char literal or lifetime
            if i + 2 < n and src[i + 1] == '\\':
                j = i + 3          # skip the backslash and the escaped character (which may be a quote)
                while j < n and src[j] != "'":
                    j += 1
                j += 1
                toks.append(Tok('char', src[i:j], i, j))
                i = j
                continue
            if i + 2 < n and src[i + 2] == "'":
                toks.append(Tok('char', src[i:i + 3], i, i + 3))
                i += 3
                continue
            m = IDENT_RE.match(src, i + 1)
            if m:
                toks.append(Tok('life', src[i:m.end()], i, m.end()))
                i = m.end()
                continue
            # multi-byte char literal like 'é'
            j = src.find("'", i + 1)
            if j < 0:
                raise LexError('bad quote')
            toks.append(Tok('char', src[i:j + 1], i, j + 1))
            i = j + 1
            continue
        if IDENT_START.match(c):
            if src.startswith('r#', i) and i + 2 < n and IDENT_START.match(src[i + 2]):
                m = IDENT_RE.match(src, i + 2)
            else:
                m = IDENT_RE.match(src, i)
            toks.append(Tok('ident', src[i:m.end()], i, m.end()))
            i = m.end()
            continue
        if c.isdigit():
            m = NUM_RE.match(src, i)
            j = m.end()
            # do not swallow `..` range or method call after integer: `1..2`, `1.foo()`
            txt = src[i:j]
            if '.' in txt:
                k = txt.index('.')
                rest = txt[k + 1:]
                if not rest or not rest[0].isdigit():
                    j = i + k
            toks.append(Tok('num', src[i:j], i, j))
            i = j
            continue
        for p in PUNCT3:
            if src.startswith(p, i):
                toks.append(Tok('punct', p, i, i + 3))
                i += 3
                break
        else:
            for p in PUNCT2:
                if src.startswith(p, i):
                    toks.append(Tok('punct', p, i, i + 2))
                    i += 2
                    break
            else:
                toks.append(Tok('punct', c, i, i + 1))
                i += 1
    return toks


OPEN = {'(': ')', '[': ']', '{': '}'}
CLOSE = {')', ']', '}'}


def match_close(toks, k):
    """toks[k] is an opening bracket; return index of its matching closer."""
    assert toks[k].text in OPEN, toks[k]
    depth = 0
    for j in range(k, len(toks)):
        t = toks[j]
        if t.kind != 'punct':
            continue
        if t.text in OPEN:
            depth += 1
        elif t.text in CLOSE:
            depth -= 1
            if depth == 0:
                return j
    raise LexError('unbalanced bracket at %d' % toks[k].start)


def norm(text):
    """Whitespace-insensitive normal form of a Rust fragment (token texts joined by one space)."""
    return ' '.join(t.text for t in lex(text))
